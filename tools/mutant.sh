#!/bin/bash
# usage: tools/mutant.sh [--baseline] <patch.diff> <property id>...
# Applies a patch to a scratch copy of /repo (outside /repo and /verif), optionally runs the repository's own tests there,
# runs the listed quick checks against the copy and removes the copy.  Prints one line per check: DETECTED / MISSED / BROKEN.
set -u
BASE=0
if [ "$1" = "--baseline" ]; then BASE=1; shift; fi
PATCH=$(realpath "$1"); shift
V=$(dirname "$(dirname "$(realpath "$0")")")
S=$(mktemp -d /tmp/tulz-mut.XXXXXX)
trap 'rm -rf "$S"' EXIT
rsync -a --exclude _build --exclude .git /repo/ "$S/"
if ! (cd "$S" && patch -p1 --quiet < "$PATCH"); then echo "PATCH-FAILED $PATCH"; exit 2; fi
if [ $BASE = 1 ]; then
  if "$V/tools/baseline.sh" "$S" >"$S/.baseline.log" 2>&1; then echo "BASELINE-PASS $(tail -1 "$S/.baseline.log")"; else echo "BASELINE-FAIL"; tail -5 "$S/.baseline.log"; fi
  rm -rf "$S/_build"
fi
rc_all=0
for id in "$@"; do
  out=$(cd "$V" && VERIF_REPO="$S" VERIF_EVIDENCE_DIR="$S/.evidence" ./check "$id" --tier quick 2>/dev/null); rc=$?
  n=$(echo "$out" | grep -c '^VIOLATION')
  first=$(echo "$out" | grep -A1 '^VIOLATION' | head -2 | tail -1 | cut -c1-220)
  if [ $rc = 1 ] && [ "$n" -gt 0 ]; then echo "DETECTED $id ($n violation lines) $first"; else echo "MISSED $id rc=$rc $(echo "$out" | tail -1 | cut -c1-200)"; rc_all=1; fi
done
exit $rc_all
