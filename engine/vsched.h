/* vsched — cooperative controlled scheduler for stateless model checking of real pthread code.
 *
 * The executable DEFINES pthread_mutex_*, pthread_cond_*, pthread_create/join, clock_gettime & friends,
 * so tulz objects and libstdc++ bind to these versions.  Exactly one controlled thread runs at a time; every
 * synchronisation operation is a scheduling point at which the explorer decides who runs next.
 *
 * This translation unit is always compiled WITHOUT sanitizer instrumentation; all harness bookkeeping that is
 * shared between threads lives here (event log, cells), so ThreadSanitizer neither sees nor orders it.
 */
#ifndef VSCHED_H
#define VSCHED_H
#include <stdint.h>
#include <stddef.h>

#ifdef __cplusplus
extern "C" {
#endif

#define VS_MAXP 2048   /* max recorded choice points per execution */
#define VS_MAXE 4096   /* max events per execution */
#define VS_MAXT 64     /* max controlled threads per execution */
#define VS_NCELL 64

/* outcomes of one execution */
enum { VS_OUT_RUNNING = 0, VS_OUT_OK = 1, VS_OUT_DEADLOCK = 2, VS_OUT_ORACLE = 3, VS_OUT_NONDET = 4,
       VS_OUT_HORIZON = 5, VS_OUT_RACE = 6, VS_OUT_CRASH = 7 };

/* flags of a recorded choice point */
#define VS_F_RUNNING_ENABLED 1   /* the running thread could have continued: a non-default choice is a preemption */
#define VS_F_SIGNAL_TARGET   2   /* choice of which waiter a cond_signal wakes (free) */
#define VS_F_TIMEOUT         4   /* choice includes a timed wait expiring (costs 1) */

struct vs_record {
    int n;
    uint8_t choice[VS_MAXP];
    uint8_t nalt[VS_MAXP];
    uint8_t flags[VS_MAXP];
    uint32_t sig[VS_MAXP];      /* fingerprint of the enabled set at this point: replay must reproduce it */
    int pruned_at;              /* stateful exploration: index of the first choice point at or after a state that had been visited before (no alternatives from there on) */
    int new_states;             /* stateful exploration: states this execution was the first to reach */
    int table_full;
};

/* event kinds written by the runtime itself (harness kinds start at 100) */
enum { VS_EV_THREAD_START = 1, VS_EV_THREAD_FINISH = 2, VS_EV_PARK = 3, VS_EV_UNPARK = 4, VS_EV_CREATE = 5,
       VS_EV_JOINED = 6, VS_EV_SIGNAL = 7, VS_EV_BROADCAST = 8, VS_EV_TIMEOUT = 9, VS_EV_CREATE_FAILED = 10 };

struct vs_ev { int16_t kind; int16_t tid; int32_t a; int64_t b; };

/* one per worker process, in MAP_SHARED memory so that it survives the worker's death */
struct vs_slot {
    /* live record of the execution in progress */
    struct vs_record rec;
    int nev;
    struct vs_ev ev[VS_MAXE];
    volatile int outcome;
    char msg[2048];
    volatile uint64_t heartbeat;
    uint64_t steps;              /* scheduling steps of this execution */
    int parked_any;              /* some thread really blocked on a condvar in this execution */
    int nthreads;
};

struct vs_options {
    int unlock_points;           /* scheduling point after every mutex unlock (needed only for racy code) */
    int horizon;                 /* max scheduling steps per execution */
    int create_faults;           /* how many times pthread_create may be made to fail with EAGAIN per execution (each costs 1 deviation) */
    int spurious;                /* how many spurious condition-variable wake-ups may be generated per execution (each costs 1 deviation) */
    const uint8_t *prefix; int prefix_len;          /* choices to replay */
    const uint8_t *exp_nalt; const uint32_t *exp_sig; int exp_len; /* expected shape of the replayed part (may be NULL) */
    uint64_t *state_table; uint64_t state_mask;      /* shared fingerprint set (counting only) */
    uint64_t (*state_cb)(void);                      /* harness contribution to the state fingerprint */
    uint64_t *prune_table; uint64_t prune_mask, prune_salt; /* stateful exploration: visited-state set shared by all workers (NULL = stateless) */
    int prune_audit;                                 /* audit of the stateful pass: look states up and count them, but never cut an execution off */
    void (*park_cb)(int tid);                        /* called by a thread that is about to block in a condition wait, while it still owns the mutex */
};

/* ---- explorer side ---- */
void vs_begin(struct vs_slot *slot, const struct vs_options *opt);  /* calling thread becomes controlled thread 0 */
void vs_end(void);
uint64_t vs_new_states(void);        /* fingerprints first inserted by this process since the last call */
int  vs_active(void);

/* ---- harness side (callable from any controlled thread) ---- */
void vs_point(int tag);                         /* explicit scheduling point */
void vs_event(int kind, int a, long b);         /* append to the totally ordered event log */
int  vs_self(void);                             /* id of the calling controlled thread (creation order), -1 if none */
void vs_fail(const char *fmt, ...) __attribute__((format(printf, 1, 2), noreturn)); /* oracle failure */
long vs_cell_get(int i);
void vs_cell_set(int i, long v);
long vs_cell_add(int i, long d);                /* returns the new value */
void vs_clock_advance_ms(long ms);              /* virtual clock seen through clock_gettime */
long vs_clock_ms(void);
const struct vs_ev *vs_log(int *n);
int  vs_thread_finished(int tid);               /* 1 iff that controlled thread has run to its end */
int  vs_thread_waiting(int tid);                /* 1 iff that thread is blocked on a condition variable now */
void vs_block_until(int (*pred)(void *), void *arg); /* calling thread is disabled until pred(arg) != 0 (evaluated by the scheduler) */
void vs_note(const char *s);                    /* annotation appended to a deadlock message, e.g. the phase of the owner script */
uint64_t vs_mix(uint64_t h, uint64_t v);

#ifdef __cplusplus
}
#endif
#endif
