// tsan_stl.cc — makes the OUT-OF-LINE container mutations of libstdc++.so visible to ThreadSanitizer.
//
// std::set / std::map rebalancing (_Rb_tree_insert_and_rebalance, _Rb_tree_rebalance_for_erase) and std::list hooking live in
// libstdc++.so, which is not instrumented: ThreadSanitizer sees the inline lookups of a reader but not the pointer surgery of a
// concurrent writer, so "lookup without the lock vs. insert under the lock" goes unreported unless a node happens to be freed.
// The executable therefore defines these entry points itself: each marks the memory the real function is about to modify (or
// read) with __tsan_write_range/__tsan_read_range and then forwards to the real implementation found with dlsym(RTLD_NEXT).
// Compiled WITHOUT instrumentation; in the non-tsan flavours the annotations are absent and the wrappers only forward.
#ifndef _GNU_SOURCE
#define _GNU_SOURCE
#endif
#include <dlfcn.h>
#include <list>
#include <map>

extern "C" {
void __tsan_write_range(void *addr, unsigned long size) __attribute__((weak));
void __tsan_read_range(void *addr, unsigned long size) __attribute__((weak));
}

namespace {
inline void W(const void *p, unsigned long n) { if (p && __tsan_write_range) __tsan_write_range(const_cast<void *>(p), n); }
inline void R(const void *p, unsigned long n) { if (p && __tsan_read_range) __tsan_read_range(const_cast<void *>(p), n); }
template<typename F> F real(const char *mangled) { return reinterpret_cast<F>(dlsym(RTLD_NEXT, mangled)); }
const unsigned long NB = sizeof(std::_Rb_tree_node_base);
const unsigned long LB = sizeof(std::__detail::_List_node_base);
}  // namespace

namespace std {
void _Rb_tree_insert_and_rebalance(const bool insert_left, _Rb_tree_node_base *x, _Rb_tree_node_base *p, _Rb_tree_node_base &header) throw() {
    static auto f = real<void (*)(bool, _Rb_tree_node_base *, _Rb_tree_node_base *, _Rb_tree_node_base &)>("_ZSt29_Rb_tree_insert_and_rebalancebPSt18_Rb_tree_node_baseS0_RS_");
    W(&header, NB); W(p, NB); W(x, NB);
    if (p && p->_M_parent && p->_M_parent != &header) W(p->_M_parent, NB);
    f(insert_left, x, p, header);
}

_Rb_tree_node_base *_Rb_tree_rebalance_for_erase(_Rb_tree_node_base *const z, _Rb_tree_node_base &header) throw() {
    static auto f = real<_Rb_tree_node_base *(*)(_Rb_tree_node_base *, _Rb_tree_node_base &)>("_ZSt28_Rb_tree_rebalance_for_erasePSt18_Rb_tree_node_baseRS_");
    W(&header, NB); W(z, NB);
    if (z) { if (z->_M_parent && z->_M_parent != &header) W(z->_M_parent, NB); W(z->_M_left, NB); W(z->_M_right, NB); }
    return f(z, header);
}

_Rb_tree_node_base *_Rb_tree_increment(_Rb_tree_node_base *x) throw() {
    static auto f = real<_Rb_tree_node_base *(*)(_Rb_tree_node_base *)>("_ZSt18_Rb_tree_incrementPSt18_Rb_tree_node_base");
    R(x, NB);
    return f(x);
}
const _Rb_tree_node_base *_Rb_tree_increment(const _Rb_tree_node_base *x) throw() {
    static auto f = real<const _Rb_tree_node_base *(*)(const _Rb_tree_node_base *)>("_ZSt18_Rb_tree_incrementPKSt18_Rb_tree_node_base");
    R(x, NB);
    return f(x);
}
_Rb_tree_node_base *_Rb_tree_decrement(_Rb_tree_node_base *x) throw() {
    static auto f = real<_Rb_tree_node_base *(*)(_Rb_tree_node_base *)>("_ZSt18_Rb_tree_decrementPSt18_Rb_tree_node_base");
    R(x, NB);
    return f(x);
}
const _Rb_tree_node_base *_Rb_tree_decrement(const _Rb_tree_node_base *x) throw() {
    static auto f = real<const _Rb_tree_node_base *(*)(const _Rb_tree_node_base *)>("_ZSt18_Rb_tree_decrementPKSt18_Rb_tree_node_base");
    R(x, NB);
    return f(x);
}

namespace __detail {
void _List_node_base::_M_hook(_List_node_base *const position) noexcept {
    static auto f = real<void (*)(_List_node_base *, _List_node_base *)>("_ZNSt8__detail15_List_node_base7_M_hookEPS0_");
    W(this, LB); W(position, LB); if (position) W(position->_M_prev, LB);
    f(this, position);
}
void _List_node_base::_M_unhook() noexcept {
    static auto f = real<void (*)(_List_node_base *)>("_ZNSt8__detail15_List_node_base9_M_unhookEv");
    W(this, LB); W(this->_M_next, LB); W(this->_M_prev, LB);
    f(this);
}
void _List_node_base::_M_transfer(_List_node_base *const first, _List_node_base *const last) noexcept {
    static auto f = real<void (*)(_List_node_base *, _List_node_base *, _List_node_base *)>("_ZNSt8__detail15_List_node_base11_M_transferEPS0_S1_");
    W(this, LB); W(first, LB); W(last, LB);
    f(this, first, last);
}
}  // namespace __detail
}  // namespace std
