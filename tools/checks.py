"""Registry of checks: which binaries (harness + tulz sources + engine) decide which property, in which flavours."""

E1_RESOURCE = {"name": "e1-resource", "engine": "e1", "harness": ["resource.cc"], "repo_src": ["src/threading/rwp/Resource.cpp"]}

E1_POOL = {"name": "e1-pool", "engine": "e1", "harness": ["threadpool.cc"], "repo_src": ["src/threading/ThreadPool.cpp", "src/threading/Thread.cpp", "src/threading/Runnable.cpp"]}

_ROUTER_SRC = ["src/observer/routing/*.cpp", "src/threading/rwp/Resource.cpp"]
E1_ROUTER = {"name": "e1-router", "engine": "e1", "harness": ["router.cc"], "repo_src": _ROUTER_SRC}
E1_RACE = {"name": "e1-race", "engine": "e1", "harness": ["resource.cc", "threadpool.cc", "router.cc"],
           "repo_src": _ROUTER_SRC + ["src/threading/ThreadPool.cpp", "src/threading/Thread.cpp", "src/threading/Runnable.cpp"]}

E1_THREAD = {"name": "e1-thread", "engine": "e1", "harness": ["thread.cc"], "repo_src": ["src/threading/Thread.cpp", "src/threading/Runnable.cpp"]}

E2_RING = {"name": "e2-ringbuffer", "engine": "e2", "harness": ["ringbuffer.cc"], "repo_src": []}

E2_ARRAY = {"name": "e2-array", "engine": "e2", "harness": ["array.cc"], "repo_src": []}

E2_SUBJECT = {"name": "e2-subject", "engine": "e2", "harness": ["subject.cc"], "repo_src": []}

E2_OBSERVABLE = {"name": "e2-observable", "engine": "e2", "harness": ["observable.cc"], "repo_src": []}

E2_ROUTER = {"name": "e2-router", "engine": "e2", "harness": ["router_seq.cc"], "repo_src": _ROUTER_SRC}

E2_FILE = {"name": "e2-file", "engine": "e2", "harness": ["file.cc"], "repo_src": ["src/File.cpp", "src/Path.cpp", "src/Exception.cpp"]}

E2_PATH = {"name": "e2-path", "engine": "e2", "harness": ["path.cc"], "repo_src": ["src/Path.cpp", "src/DirectoryVisitor.cpp", "src/Exception.cpp"]}

E2_LOCALE = {"name": "e2-locale", "engine": "e2", "harness": ["locale.cc"], "repo_src": ["src/LocaleInfo.cpp"]}

MC = "model_checking"

CHECKS = {
    "C01": {"level": MC, "runs": [{"binary": E1_RESOURCE, "flavour": "hooked"}, {"binary": E1_RESOURCE, "flavour": "asan", "args": ["--max-bound", "2"], "tiers": ["thorough"]}]},
    "C02": {"level": MC, "runs": [{"binary": E1_RESOURCE, "flavour": "hooked"}]},
    "C03": {"level": MC, "runs": [{"binary": E1_RESOURCE, "flavour": "hooked"}]},
    "C04": {"level": MC, "runs": [{"binary": E2_RING, "flavour": "asanub"}]},
    "C09": {"level": MC, "runs": [{"binary": E2_RING, "flavour": "asanub"}]},
    "C14": {"level": MC, "runs": [{"binary": E2_ARRAY, "flavour": "asanub"}]},
    "C05": {"level": MC, "runs": [{"binary": E2_SUBJECT, "flavour": "asanub"}]},
    "C10": {"level": MC, "runs": [{"binary": E2_SUBJECT, "flavour": "asanub"}]},
    "C16": {"level": MC, "runs": [{"binary": E2_OBSERVABLE, "flavour": "asanub"}]},
    "C06": {"level": MC, "runs": [{"binary": E2_ROUTER, "flavour": "asan"}]},
    "C13": {"level": MC, "runs": [{"binary": E2_ROUTER, "flavour": "asan"}]},
    "C17": {"level": MC, "runs": [{"binary": E2_FILE, "flavour": "asanub"}]},
    "C18": {"level": MC, "runs": [{"binary": E2_PATH, "flavour": "asanub"}]},
    "C19": {"level": MC, "runs": [{"binary": E2_LOCALE, "flavour": "asanub"}]},
    "C07": {"level": MC, "runs": [{"binary": E1_POOL, "flavour": "hooked"}, {"binary": E1_POOL, "flavour": "asan", "args": ["--max-bound", "2"]}]},
    "C08": {"level": MC, "runs": [{"binary": E1_POOL, "flavour": "hooked"}]},
    "C15": {"level": MC, "runs": [{"binary": E1_RACE, "flavour": "tsan"}]},
    "C20": {"level": MC, "runs": [{"binary": E1_THREAD, "flavour": "hooked"}, {"binary": E1_THREAD, "flavour": "asan"}, {"binary": E1_THREAD, "flavour": "tsan"}]},
    "C11": {"level": MC, "runs": [{"binary": E1_ROUTER, "flavour": "hooked"}, {"binary": E1_ROUTER, "flavour": "asan", "args": ["--max-bound", "1"]}]},
    "C12": {"level": MC, "runs": [{"binary": E1_RESOURCE, "flavour": "hooked"}]},
}

_E2_NOTE = ("Trusted: the reference model (a few lines of std:: containers in the harness), AddressSanitizer/UBSan for the memory-safety half, the canonical state key read from the implementation's own fields "
            "(merging is only done where the implementation is in the same state); bounds as stated in the evidence.")

ENGINES = [
    {"name": "vsched", "path": "engine/vsched.c engine/explore.cc", "serves_properties": ["C01", "C02", "C03", "C07", "C08", "C11", "C12", "C15", "C20"],
     "kind_free_text": "stateless model checking of the real implementation: cooperative scheduler interposed on pthread mutex/condvar/create/join + clock, depth-first enumeration of every schedule up to a preemption bound, forked workers, replay-confirmed violations"},
    {"name": "seqx", "path": "harness/seqx.h", "serves_properties": ["C04", "C05", "C06", "C09", "C10", "C13", "C14", "C16", "C17", "C18", "C19"],
     "kind_free_text": "explicit-state / bounded-exhaustive exploration of sequential code: operation histories replayed on fresh real objects, breadth-first to fixpoint over canonical implementation-state keys (or complete enumeration to a stated bound), "
                       "step-by-step comparison with a reference model, forked exploration under ASan/UBSan with the history in flight kept in shared memory"},
]

_E1_NOTE = ("Trusted: the interposed scheduler (engine/vsched.c) models pthread mutex/condvar semantics faithfully; sequential consistency at synchronisation-step granularity "
            "(data-race freedom is what C15 checks on the same programs); spurious wake-ups only in the programs marked +spurious (one per execution); bounds as listed in the evidence (threads, sections per thread, preemptions).")

META = {
    "C01": {"engine": "vsched", "design_ref": "DESIGN.md §4 C01", "technique": "stateless model checking of the implementation: exhaustive preemption-bounded schedule enumeration under a controlled scheduler",
            "text": "Every schedule with <= c preemptions (c=2..3) of every program in a family of reader/writer lock-unlock scripts (3-5 threads, 1-2 critical sections each, raw calls and guards) is executed on the real Resource; "
                    "holder counters are checked at every acquisition and tulz's own assert(m_activeOp == opType) is live. A pass is a coverage statement for these programs and bounds, not a proof for all thread counts.",
            "note": _E1_NOTE},
    "C02": {"engine": "vsched", "design_ref": "DESIGN.md §4 C02", "technique": "stateless model checking of the implementation: exhaustive preemption-bounded schedule enumeration with deadlock detection",
            "text": "Same program family as C01 plus arrival-shaped programs (a holder keeps the lock until the requesters have queued in a known order). In every explored schedule a state with unfinished threads and no enabled thread is a deadlock; "
                    "after all threads are joined the main thread takes W, then R twice: a Resource that is not idle parks it forever and is detected the same way.",
            "note": _E1_NOTE},
    "C03": {"engine": "vsched", "design_ref": "DESIGN.md §4 C03", "technique": "stateless model checking of the implementation: exhaustive preemption-bounded schedule enumeration, FIFO oracle over the event log",
            "text": "Same programs as C02. Oracle over the totally ordered event log of each schedule: for requests A,B that are not both reads, if A was parked inside lock*() before B was issued then A is granted before B.",
            "note": _E1_NOTE},
    "C04": {"engine": "seqx", "design_ref": "DESIGN.md §4 C04", "technique": "explicit-state model checking of the implementation: breadth-first search over operation histories to fixpoint, compared with a bounded std::deque",
            "text": "Breadth-first search to fixpoint over the (overwrite, capacity, head, size) layouts of the real RingBuffer<int> for capacities 1..5 (thorough 1..7): every operation (push/emplace/pop at both ends, resize to every capacity, copy, move, self/copy/move assignment) "
                    "is applied in every reachable layout and the whole public API (size, capacity, [], both iterator kinds with arithmetic, front/back, return values, operator== across overwrite modes) is compared with a capacity-bounded std::deque; "
                    "plus every history to depth 4 (thorough 6) without state merging, one more operation of every kind after each transition into a known state, pushes whose argument is an element of the buffer itself, a heap-owning element type, "
                    "and operator== on values whose bytes differ from their equality (-0.0, NaN, a struct that ignores a field). Runs under ASan+UBSan with assertions on.",
            "note": _E2_NOTE},
    "C09": {"engine": "seqx", "design_ref": "DESIGN.md §4 C09", "technique": "explicit-state model checking of the implementation with a lifetime-tracking element type under AddressSanitizer",
            "text": "The C04 search with a bitwise-relocatable element type whose objects carry serial numbers: a registry knows for every object whether it holds a value, is a moved-from shell or was destroyed. After every transition the values held by "
                    "live objects must be exactly the logical contents; destructors on raw storage, double destruction, reads of destroyed elements and values abandoned at container death are violations; the state key includes the status of every physical slot.",
            "note": _E2_NOTE},
    "C14": {"engine": "seqx", "design_ref": "DESIGN.md §4 C14", "technique": "explicit-state model checking of the implementation: breadth-first search over construction paths and operation histories, std::vector model, lifetime-tracking elements, ASan",
            "text": "From every construction path (pointer+length, initializer list, size, size+fill, default, adopted storage) x length 0..3 (thorough 0..4), for int and a lifetime-tracked class type, breadth-first to fixpoint with copy (incl. write-through test), "
                    "move, copy-/move-assign, swap, resize(n), resize(n,v), writes, self-assignment; contents, sizes, iteration and the set of live element objects are compared with std::vector models after every step; plus all histories to depth 3 (thorough 4); a third element type (trivially copyable class with member initialisers), "
                    "floating-point fill values compared bit for bit, a named initializer list feeding two arrays, growth one element beyond an adopted block.",
            "note": _E2_NOTE},
    "C11": {"engine": "vsched", "design_ref": "DESIGN.md §4 C11", "technique": "stateless model checking of the implementation: exhaustive preemption-bounded schedule enumeration, brute-force linearizability check of every recorded history against the sequential router",
            "text": "2-4 threads with one or two router operations each (notify with wildcard/regex/concrete patterns, subscribe, USubscription::unsubscribe, shrink, exists, depth) collide on the same keys of a pre-populated ConcurrentSubjectRouter; callbacks contain scheduling points. "
                    "For every schedule within the bound the recorded results (callbacks made per notify, return values) must be explained by some sequential order consistent with the call/return order; no callback after unsubscribe() returned; ASan flavour for use-after-free.",
            "note": _E1_NOTE + " The sequential SubjectRouter is the reference for linearizability (its own behaviour is decided by C06/C13)."},
    "C05": {"engine": "seqx", "design_ref": "DESIGN.md §4 C05", "technique": "explicit-state model checking of the implementation: breadth-first search over operation histories to fixpoint against a list model, ASan",
            "text": "Breadth-first search to fixpoint over histories of subscribe (lambda, SelfView lambda, unique_ptr, raw pointer), unsubscribe through handle and subject, unsubscribe of stale/empty/foreign handles (must throw, state unchanged), mute, unmute, invalidate, "
                    "handle move-assign/move-construct and notify on one real Subject with 3 handle slots, for the signatures <>, <int>, <const std::string&>, <std::string,int>; states keyed by the implementation's observer list with rank-normalised ids. "
                    "Every notify must invoke exactly the subscribed, valid, unmuted observers in subscription order with the passed values; handle validity/mute state and observer object lifetimes (destroyed exactly once) are checked in every state.",
            "note": _E2_NOTE},
    "C06": {"engine": "seqx", "design_ref": "DESIGN.md §4 C06", "technique": "explicit-state model checking of the implementation: breadth-first search over router histories, every probe pattern notified in every state against an independent matcher, ASan",
            "text": "Router contents are explored breadth-first to fixpoint (subscribe, unsubscribe, invalidate+notify, self-invalidating callbacks, shrink) over a key universe with equal names at different levels and names that are prefixes of others; in every distinct state "
                    "all 258 patterns (literal, wildcard, regex levels, depth 1..3) are notified and the invoked observers, multiplicities, received values and the return count are compared with a hand-written level-by-level matcher; for SubjectRouter and single-threaded "
                    "ConcurrentSubjectRouter and five argument signatures including by-value class types.",
            "note": _E2_NOTE},
    "C10": {"engine": "seqx", "design_ref": "DESIGN.md §4 C10", "technique": "bounded-exhaustive enumeration of re-entrant callback programs on the implementation under ASan, compared with a reference simulation of the rounds",
            "text": "Every assignment of an action list per callback (subscribe new, unsubscribe/mute/unmute/invalidate any target incl. itself, nested notify up to depth 2; lists of up to 6 actions for one observer, 2 for two, 1 for three; thorough 7/3/2 and four observers) and every relevant initial "
                    "mute mask is run for two rounds on the real Subject under AddressSanitizer; the recorded call log (each call tagged with the notify that made it) must be explained by the round semantics of the property (membership fixed at entry, removed-before-turn skipped, "
                    "added-during-round first called next round, invalidated never called again); observer objects are destroyed exactly when they leave; what the property leaves open is left open.",
            "note": _E2_NOTE},
    "C13": {"engine": "seqx", "design_ref": "DESIGN.md §4 C13", "technique": "explicit-state model checking of the implementation: breadth-first search over router histories with shrink transitions checked against removal rules, exists/depth against the stored key set",
            "text": "The C06 state graph with shrink(p) for ~60 concrete, regex and wildcard patterns as transitions: after every shrink deliveries for the whole probe set are unchanged (compared with the model in the new state), no key with a live subscription at or below it disappears, "
                    "every removed key's parent lies along the pattern, a full-depth wildcard shrink leaves exactly the keys that lead to an observer; in every state exists(pattern) for all 258 patterns and depth() agree with the stored, prefix-closed key set.",
            "note": _E2_NOTE},
    "C16": {"engine": "seqx", "design_ref": "DESIGN.md §4 C16", "technique": "explicit-state model checking of the implementation: breadth-first search over operator histories with state merging on (value, subscribers)",
            "text": "Histories of =, +=, -=, *=, /=, ++x, x++, --x, x--, apply (identity/set/add), subscribe and unsubscribe (2 subscriber slots) are explored breadth-first to depth 6 (thorough 8) from several initial values for Observable<int>, "
                    "Observable<float, NearEq(0.5)> and Observable<std::string>; after every step the notifications each subscriber received (exactly one with the post-value iff !eq(old,new); always for ++/--), return values and value() are compared with the model. "
                    "Plus re-entrant histories (a subscriber assigns to the Observable from inside its callback, every subscriber order, <= 3 top-level operations): every notification carries the then-current value() and every notified recorder holds value().",
            "note": _E2_NOTE},
    "C17": {"engine": "seqx", "design_ref": "DESIGN.md §4 C17", "technique": "bounded-exhaustive enumeration of inputs and call sequences on the implementation against a byte-vector-with-position model (real files on tmpfs, ASan)",
            "text": "Every byte string of length <= 4 (thorough 5) over {00,FF,CR,LF,'a',1A} x every split into write calls, every write/append mode onto {nothing, existing file} through all three write overloads, read back in both read modes through read(), readStr(), size() "
                    "and chunked read(); large patterned files across stdio buffer boundaries; every sequence of <= 3 (thorough 4) seek/tell/size/read calls against a position model and std::filesystem; every session of <= 4 (thorough 5) calls on one File object over two paths; NotFound/NotFile errors; no case may leave a file descriptor open.",
            "note": _E2_NOTE + " The kernel's tmpfs is the environment; I/O errors are not injected."},
    "C18": {"engine": "seqx", "design_ref": "DESIGN.md §4 C18", "technique": "bounded-exhaustive enumeration of directory configurations and path strings on the implementation against std::filesystem (tmpfs, ASan)",
            "text": "Every directory forest with <= 4 (thorough 5) entries, depth <= 3, files of 0/1/4097 bytes and names with spaces, dots and non-ASCII bytes is created; exists/isFile/isDirectory/size/listChildren of every node and of missing siblings (absolute, relative, ./, trailing separator) "
                    "are compared with std::filesystem; DirectoryVisitor is checked for every directory (absolute/relative/nested/missing/unused/explicit restore); join/getPathName/getParentDirectory identities for every path of <= 3 segments with leading/trailing/doubled separators; working directories with long absolute paths; the queries on a tree must not leave file descriptors open.",
            "note": _E2_NOTE + " No symlinks or special files; process runs as root."},
    "C19": {"engine": "seqx", "design_ref": "DESIGN.md §4 C19", "technique": "complete enumeration of a structured bounded input space on the implementation under ASan, compared with an independent parser over the public tables",
            "text": "All language codes and names x all country codes and names x four suffixes (~0.8M strings), every string of length <= 6 (thorough 7) over {e,n,G,B,_,.,x}, and language/country parts of every length 0..80 across the 64-byte buffer with delimiters in every order; "
                    "each result is compared with an independent reading of 'language_COUNTRY[.charset]' (code, all names in table order, pointer identity with table entries; otherwise the documented fallback with error set); "
                    "plus every sequence of 2..3 (thorough 4) calls over 12 representative inputs, each in a fresh process: the answer must not depend on earlier calls.",
            "note": _E2_NOTE},
    "C07": {"engine": "vsched", "design_ref": "DESIGN.md §4 C07", "technique": "stateless model checking of the implementation: exhaustive preemption-bounded schedule enumeration, task life-cycle oracle over the event log",
            "text": "Every schedule (owner + workers, every notify_one target) with <= c preemptions of owner scripts over start/clear/stop/wait with 1-4 instrumented tasks and 1-3 workers runs on the real ThreadPool, plain and under AddressSanitizer. "
                    "Per task: run at most once, destroyed exactly once and never before/during run; run exactly once unless cleared/stopped first (a lost task deadlocks the owner's wait); nothing runs after stop() returned; one worker runs in submission order. "
                    "Scripts also submit functors through the template start() (temporaries and named objects that die right after the call), let one thread creation fail with EAGAIN (start() throws, the pool still owns the task), allow one spurious wake-up, "
                    "and a stateful pass explores ALL schedules of 18 scripts without a preemption bound.",
            "note": _E1_NOTE + " Non-expiring workers as the property states; ThreadPool runs with new_delete_type_mismatch=0 (PooledThread is deleted through Thread*, out of scope)."},
    "C08": {"engine": "vsched", "design_ref": "DESIGN.md §4 C08", "technique": "stateless model checking of the implementation: exhaustive preemption-bounded schedule enumeration with deadlock detection around stop()",
            "text": "Same owner scripts as C07, scheduling points also after every unlock. A deadlock with the owner inside stop() is a violation; after stop(): getThreadCount()==0, no task running, every queued task destroyed, restart works; "
                    "the worker count never exceeds maxThreadCount; a task submitted to a restarted pool must be executed (a lost task after stop()+start() is a C08 violation); variants with one spurious wake-up of a waiting worker.",
            "note": _E1_NOTE},
    "C15": {"engine": "vsched", "design_ref": "DESIGN.md §2.5, §4 C15", "technique": "stateless model checking of the implementation under ThreadSanitizer: happens-before race detection on every enumerated schedule",
            "text": "The Resource, ThreadPool (incl. worker expiry, update(), getters) and ConcurrentSubjectRouter programs are built with -fsanitize=thread; the scheduler itself is uninstrumented and hands off through raw futexes, so it adds no happens-before edges; "
                    "modelled mutexes are announced with __tsan_acquire/__tsan_release. Router programs include concurrent readers that share one const RoutingKey object (built afresh per execution). Every schedule up to the preemption bound is executed and any ThreadSanitizer report is a violation.",
            "note": "Trusted: ThreadSanitizer's vector-clock detector (bounded access history per location) and the announcement of modelled mutexes; harness bookkeeping lives in uninstrumented code. Bounds as listed in the evidence."},
    "C20": {"engine": "vsched", "design_ref": "DESIGN.md §4 C20", "technique": "stateless model checking of the implementation: complete schedule enumeration of starter vs started thread, liveness-canary oracle, plain and AddressSanitizer",
            "text": "For every callable kind (function pointer with 0/2 lvalue arguments, small/large functor, lambda, Runnable, constructor form) ALL schedules of the starter and the new thread are executed; the starter overwrites its dead stack after start() returns. "
                    "The invoked object must be alive (canary + registry, and ASan stack-use-after-return), invoked exactly once, isFinished() true only after the callable returned (also when asked by the callable itself on entry, and after the starter detached instead of joining), join() after that; "
                    "a ThreadSanitizer pass requires the completion flag to order the callable before an observer that reads its results without joining.",
            "note": _E1_NOTE},
    "C12": {"engine": "vsched", "design_ref": "DESIGN.md §4 C12", "technique": "stateless model checking of the implementation: exhaustive preemption-bounded schedule enumeration, no-park and rendezvous oracles",
            "text": "Reader-only programs (2-6 threads), mixed programs and rendezvous programs (k readers queue behind a writer and must meet at a barrier inside the read section; with late readers that arrive while the admitted batch is still waking up; with one spurious wake-up). "
                    "A read request whose call overlaps no write request must never park; a rendezvous that deadlocks means queued readers were not admitted together.",
            "note": _E1_NOTE},
}

# the size dimension (DESIGN.md §3 "large sizes from constructed states")
for _k, _t in {
    "C04": "Capacities 7..70 are covered from constructed states (head at the first/second/middle/last slot, size 0/1/half/capacity-1/capacity) with every operation and every second operation.",
    "C09": "Capacities 7..70 are covered from constructed states (head at the first/second/middle/last slot, size 0/1/half/capacity-1/capacity) with every operation and every second operation.",
    "C14": "Lengths 4..70 are covered from every construction path with every operation and every second operation.",
    "C05": "1..40 (thorough 70) observers at a time with the first, middle or last one unsubscribed, muted, invalidated, muted and unmuted, or acting from inside its callback.",
    "C10": "The two-observer action lists are repeated among 3..70 observers in total, the others only counting their calls (before, after and around the active pair); one of the actions notifies a second Subject.",
    "C06": "1..40 (thorough 70) keys per level (an observer under each, half of them leaving) with concrete, wildcard and regex notifies.",
    "C13": "1..40 (thorough 70) keys per level: after half of the observers left and a full wildcard shrink ran, live keys exist, dead keys are gone, depth() agrees and the removed keys can be subscribed again.",
    "C07": "Programs with 17..70 tasks queued at once (one schedule each; 20 tasks with one preemption), and programs with a second ThreadPool alive (its worker busy or idle).",
    "C08": "Programs with a second ThreadPool alive during the whole script (its worker busy or idle): the pools share nothing.",
}.items():
    META[_k]["text"] += " " + _t

