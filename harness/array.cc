// E2 harness for tulz::Array: C14 (value semantics, element lifetimes, no access outside the allocation).
#include <tulz/container/Array.h>

#include <cmath>
#include <deque>
#include <limits>
#include <memory>
#include <set>
#include <string>
#include <vector>

#include "seqx.h"

using namespace sx;
using tulz::Array;

namespace {
const int UNKNOWN = -12345;        // model value of an arithmetic element that was never given a value

enum OpKind { CC, MC, CAB, MAB, SW, RS, RV, WR, SELF, CAE, NKINDS };
const char *kname[] = {"cc", "mc", "cab", "mab", "sw", "rs", "rv", "wr", "self", "cae"};
struct Op { int kind, arg; };
std::string op_str(const Op &o) { std::string s = kname[o.kind]; if (o.kind == RS || o.kind == RV || o.kind == WR) s += std::to_string(o.arg); return s; }

// construction paths of the primary array
enum Ctor { K_PTR, K_INIT, K_SIZE, K_FILL, K_DEFAULT, K_ADOPT, NCTORS };
const char *cname[] = {"ptr", "init", "size", "fill", "default", "adopt"};
// element types: int, a lifetime-tracked class, and a trivially copyable class whose default construction is observable (member initialisers)
struct Cell { int id = -1; float weight = 1.5f; Cell() = default; Cell(int v) : id(v), weight(2.5f) {} };
static_assert(std::is_trivially_copyable_v<Cell> && std::is_class_v<Cell>, "Cell");
enum { TY_INT = 0, TY_TRACKED = 1, TY_CELL = 2 };
const char *tname[] = {"int", "tracked", "cell"};
struct Config { int ctor, len; int type; };
std::string cfg_str(const Config &c) { return fmt("ctor=%s len=%d T=%s :", cname[c.ctor], c.len, tname[c.type]); }
std::string hist_str(const Config &c, const std::vector<Op> &h, const Op *inflight = nullptr) {
    std::string s = cfg_str(c); for (auto &o : h) s += " " + op_str(o); if (inflight) s += " " + op_str(*inflight); return s;
}
bool parse_hist(const std::string &s, Config &c, std::vector<Op> &h) {
    char cn[32], t[32]; int len;
    if (sscanf(s.c_str(), "ctor=%31s len=%d T=%31s :", cn, &len, t) != 3) return false;
    c.ctor = -1; for (int i = 0; i < NCTORS; i++) if (std::string(cn) == cname[i]) c.ctor = i;
    if (c.ctor < 0) return false;
    c.len = len; c.type = std::string(t) == "tracked" ? TY_TRACKED : std::string(t) == "cell" ? TY_CELL : TY_INT;
    std::stringstream ss(s.substr(s.find(':') + 1)); std::string tok;
    while (ss >> tok) {
        int best = -1;
        for (int k = 0; k < NKINDS; k++) { size_t n = strlen(kname[k]); if (tok.compare(0, n, kname[k]) == 0 && (best < 0 || n > strlen(kname[best]))) { std::string rest = tok.substr(n); if (rest.empty() || isdigit((unsigned char)rest[0])) best = k; } }
        if (best < 0) return false;
        h.push_back(Op{best, atoi(tok.c_str() + strlen(kname[best]))});
    }
    return true;
}

template<typename T> int val(const T &x);
template<> int val<int>(const int &x) { return x; }
template<> int val<Tracked>(const Tracked &x) { return x.value(); }
template<> int val<Cell>(const Cell &x) { return x.weight == (x.id == -1 ? 1.5f : 2.5f) ? x.id : -777; }      // both members must be what a constructor leaves

int g_label;

template<typename T> struct Sys {
    Config cfg;
    static constexpr bool tracked = std::is_same_v<T, Tracked>;
    static constexpr int type_id = tracked ? TY_TRACKED : std::is_class_v<T> ? TY_CELL : TY_INT;
    static constexpr int defval = tracked ? 0 : std::is_class_v<T> ? -1 : UNKNOWN;      // value of a default-constructed element (arithmetic types are left uninitialised)
    typedef std::vector<int> M;

    void bad(const std::string &sig, const std::string &msg) { violation(sig, msg); }

    void compare(const Array<T> &a, const M &m, const char *who) {
        if (a.size() != m.size()) { bad("model:size", fmt("%s: size() == %zu, expected %zu", who, a.size(), m.size())); return; }
        if (a.empty() != m.empty()) bad("model:empty", fmt("%s: empty() wrong", who));
        if (!m.empty() && a.array() == nullptr) { bad("model:null", fmt("%s: array() is null with size %zu", who, m.size())); return; }
        for (size_t i = 0; i < m.size(); i++) if (m[i] != UNKNOWN && val<T>(a[i]) != m[i]) { bad("model:element", fmt("%s: [%zu] == %d, expected %d", who, i, val<T>(a[i]), m[i])); break; }
        size_t i = 0;
        for (auto it = a.begin(); it != a.end(); ++it, ++i) if (i < m.size() && m[i] != UNKNOWN && val<T>(*it) != m[i]) { bad("model:iteration", fmt("%s: iteration differs at %zu", who, i)); break; }
        if (i != m.size()) bad("model:iteration", fmt("%s: iteration visited %zu elements, expected %zu", who, i, m.size()));
        if (a.cend() - a.cbegin() != (std::ptrdiff_t)m.size()) bad("model:iterator-distance", fmt("%s: cend()-cbegin() != size()", who));
    }

    void check_all(Array<T> &a, const M &ma, Array<T> &b, const M &mb) {
        compare(a, ma, "array A"); compare(b, mb, "array B");
        if (!ma.empty() && a.size() == ma.size()) {
            if (&a.front() != &a[0] || &a.back() != &a[ma.size() - 1]) bad("model:front-back", "front()/back() do not refer to the first/last element");
            size_t i = 0; for (auto &e : a) { if (&e != &a.array()[i]) { bad("model:iteration", "mutable iteration does not walk array()"); break; } i++; }
        }
        if constexpr (tracked) {
            std::multiset<int> live; for (int v : t_live_values()) live.insert(v);
            std::multiset<int> want(ma.begin(), ma.end()); want.insert(mb.begin(), mb.end());
            if (live != want) {
                std::string x, y; for (int v : live) x += std::to_string(v) + " "; for (int v : want) y += std::to_string(v) + " ";
                bad("lifetime:live-set", "values held by live element objects {" + x + "} differ from the contents of the two arrays {" + y + "}");
            }
        }
    }

    Array<T> *construct(M &m) {
        int n = cfg.len; m.clear();
        std::vector<int> labels; for (int i = 0; i < n; i++) labels.push_back(g_label++);
        switch (cfg.ctor) {
        case K_PTR: { std::vector<T> src; src.reserve(n + 1); for (int l : labels) src.emplace_back(l); m = labels; return new Array<T>(src.data(), (size_t)n); }
        case K_INIT:
            m = labels;
            if (n == 0) return new Array<T>(std::initializer_list<T>{});
            if (n == 1) return new Array<T>{T(labels[0])};
            if (n == 2) {
                // a NAMED initializer list feeds two arrays: building the first one must not change the list (its elements are const)
                std::initializer_list<T> il = {T(labels[0]), T(labels[1])};
                { Array<T> first(il); compare(first, m, "first array built from a named initializer list"); }
                return new Array<T>(il);
            }
            if (n == 3) return new Array<T>{T(labels[0]), T(labels[1]), T(labels[2])};
            return new Array<T>{T(labels[0]), T(labels[1]), T(labels[2]), T(labels[3])};
        case K_SIZE: m.assign(n, defval); return new Array<T>((size_t)n);
        case K_FILL: { int l = g_label++; m.assign(n, l); return new Array<T>((size_t)n, T(l)); }
        case K_DEFAULT: return new Array<T>();
        case K_ADOPT: {
            T *raw = static_cast<T *>(malloc((n ? n : 1) * sizeof(T)));
            for (int i = 0; i < n; i++) new (&raw[i]) T(labels[i]);
            m = labels; return new Array<T>(raw, (size_t)n, false);
        }
        }
        return nullptr;
    }

    void apply(Array<T> &a, M &ma, Array<T> &b, M &mb, const Op &o, bool check) {
        switch (o.kind) {
        case CC: {
            Array<T> twin(a);
            if (check) {
                compare(twin, ma, "copy-constructed twin");
                if (!ma.empty()) {      // deep copy: writing to the twin must not show through the original
                    int l = g_label++; twin[0] = T(l); M mt = ma; mt[0] = l;
                    compare(twin, mt, "twin after write"); compare(a, ma, "original after a write to its copy");
                    if (twin.array() == a.array()) bad("model:shallow-copy", "copy shares storage with its source");
                }
            }
            break;
        }
        case MC: { Array<T> t(std::move(a)); if (check) { compare(t, ma, "move-constructed array"); compare(a, M{}, "moved-from array"); } a = std::move(t); break; }
        case CAB: a = b; ma = mb; if (check && !ma.empty() && a.array() == b.array()) bad("model:shallow-copy", "copy assignment shares storage"); break;
        case MAB: a = std::move(b); std::swap(ma, mb); break;       // documented as swap-based: B receives A's old contents
        case SW: a.swap(b); std::swap(ma, mb); break;
        case RS: a.resize((size_t)o.arg); ma.resize((size_t)o.arg, defval); break;
        case RV: { int l = g_label++; a.resize((size_t)o.arg, T(l)); ma.resize((size_t)o.arg, l); break; }
        case WR: { int l = g_label++; a[(size_t)o.arg] = T(l); ma[(size_t)o.arg] = l; break; }
        case SELF: { Array<T> &self = a; a = self; break; }
        case CAE: { Array<T> empty; a = empty; ma.clear(); break; }
        }
    }

    bool pre(const M &ma, const Op &o) { return o.kind != WR || (size_t)o.arg < ma.size(); }

    std::string step(const std::vector<Op> &h, const Op *o, M &ma_out) {
        g_label = 1;
        if (tracked) t_reset();
        std::string key;
        {
            M ma, mb;
            std::unique_ptr<Array<T>> a(construct(ma));
            int l1 = g_label++, l2 = g_label++;
            Array<T> b{T(l1), T(l2)}; mb = {l1, l2};
            for (auto &p : h) apply(*a, ma, b, mb, p, false);
            if (o) apply(*a, ma, b, mb, *o, true);
            check_all(*a, ma, b, mb);
            key = fmt("%d|%zu|%zu|%d|%d", type_id, a->size(), b.size(), a->array() == nullptr, b.array() == nullptr);      // Array has no state beyond what size() and array() show
            for (int v : ma) key += v == UNKNOWN ? 'u' : 'k';
            ma_out = ma;
        }
        if (tracked) {
            auto left = t_live_values();
            if (!left.empty()) { std::string x; for (int v : left) x += std::to_string(v) + " "; bad("lifetime:abandoned", "after both arrays were destroyed these values are still held by undestroyed element objects: {" + x + "}"); }
        }
        return key;
    }
};

// counters live in shared memory so that they survive a crash of the exploring process
struct Stats { uint64_t &states = shm->states, &transitions = shm->transitions, &evals = shm->evaluations, &nontrivial = shm->nontrivial; };

std::vector<Op> alphabet(int maxlen) {
    std::vector<Op> a;
    for (int k : {CC, MC, CAB, MAB, SW, SELF, CAE}) a.push_back(Op{k, 0});
    for (int n = 0; n <= maxlen + 1; n++) { a.push_back(Op{RS, n}); a.push_back(Op{RV, n}); }      // one beyond the largest constructed length: growth past an adopted block
    for (int i = 0; i < maxlen; i++) a.push_back(Op{WR, i});
    return a;
}

template<typename T> void bfs(int maxlen, std::set<std::string> &seen, Stats &st) {
    auto alpha = alphabet(maxlen);
    for (int ctor = 0; ctor < NCTORS; ctor++) for (int len = 0; len <= maxlen; len++) {
        if (ctor == K_DEFAULT && len > 0) continue;
        Sys<T> sys; sys.cfg = Config{ctor, len, Sys<T>::type_id};
        std::deque<std::vector<Op>> frontier;
        typename Sys<T>::M m;
        mark(hist_str(sys.cfg, {}));
        std::string k0 = sys.step({}, nullptr, m);
        st.evals++; st.transitions++;
        if (len > 0) st.nontrivial++;
        if (st.evals % 5 == 1) sample(hist_str(sys.cfg, {}) + "  => state " + k0);
        if (seen.insert(cfg_str(sys.cfg) + k0).second) { st.states++; frontier.push_back({}); }
        while (!frontier.empty()) {
            if (deadline_passed()) { shm->exhaustive = 0; return; }
            auto h = std::move(frontier.front()); frontier.pop_front();
            typename Sys<T>::M base; mark(hist_str(sys.cfg, h)); sys.step(h, nullptr, base);
            for (auto &o : alpha) {
                if (!sys.pre(base, o)) continue;
                mark(hist_str(sys.cfg, h, &o));
                typename Sys<T>::M after; std::string k = sys.step(h, &o, after);
                st.transitions++; st.evals++; if (!base.empty() || !after.empty()) st.nontrivial++;
                // the construction path stays part of the key for the first step only (afterwards only the reached state matters)
                if (seen.insert(k).second) { st.states++; auto h2 = h; h2.push_back(o); frontier.push_back(std::move(h2)); if (st.states % 23 == 5) sample(hist_str(sys.cfg, h, &o) + "  => state " + k); }
                else {
                    // a transition into a known state: one more operation of every kind on THIS history (not merged)
                    auto h2 = h; h2.push_back(o);
                    for (auto &o2 : alpha) { if (!sys.pre(after, o2)) continue; mark(hist_str(sys.cfg, h2, &o2)); typename Sys<T>::M m3; sys.step(h2, &o2, m3); st.transitions++; st.evals++; }
                }
            }
        }
    }
}

template<typename T> void enumerate(int maxlen, int depth, Stats &st) {
    auto alpha = alphabet(maxlen);
    for (int ctor : {K_PTR, K_SIZE, K_ADOPT}) for (int len : {0, 2}) {
        Sys<T> sys; sys.cfg = Config{ctor, len, Sys<T>::type_id};
        std::vector<std::vector<Op>> level{{}};
        for (int d = 0; d < depth; d++) {
            std::vector<std::vector<Op>> next;
            for (auto &h : level) {
                if (deadline_passed()) { shm->exhaustive = 0; return; }
                typename Sys<T>::M base; mark(hist_str(sys.cfg, h)); sys.step(h, nullptr, base);
                for (auto &o : alpha) {
                    if (!sys.pre(base, o)) continue;
                    mark(hist_str(sys.cfg, h, &o));
                    typename Sys<T>::M after; sys.step(h, &o, after);
                    st.transitions++; st.evals++; st.nontrivial++;
                    if (d + 1 < depth) { auto h2 = h; h2.push_back(o); next.push_back(std::move(h2)); }
                }
            }
            level = std::move(next);
        }
    }
}

// Long arrays: whatever the implementation does differently above some length is on both sides of it here (every construction path x length, every operation, every second operation).
template<typename T> void wide(const std::vector<int> &lens, Stats &st) {
    for (int ctor = 0; ctor < NCTORS; ctor++) for (int len : lens) {
        if (ctor == K_DEFAULT || ctor == K_INIT) continue;      // (an initializer list has a static length: 0..4 in the search above)
        Sys<T> sys; sys.cfg = Config{ctor, len, Sys<T>::type_id};
        std::vector<Op> alpha;
        for (int k : {CC, MC, CAB, MAB, SW, SELF, CAE}) alpha.push_back(Op{k, 0});
        for (int n : std::set<int>{0, 1, len / 2, len - 1, len, len + 1, 2 * len}) { alpha.push_back(Op{RS, n}); alpha.push_back(Op{RV, n}); }
        for (int i : std::set<int>{0, len / 2, len - 1}) alpha.push_back(Op{WR, i});
        if (deadline_passed()) { shm->exhaustive = 0; return; }
        typename Sys<T>::M base; mark(hist_str(sys.cfg, {})); sys.step({}, nullptr, base); st.evals++; st.states++;
        for (auto &o : alpha) {
            if (!sys.pre(base, o)) continue;
            mark(hist_str(sys.cfg, {}, &o));
            typename Sys<T>::M after; sys.step({}, &o, after); st.transitions++; st.evals++; st.nontrivial++;
            std::vector<Op> h2{o};
            for (auto &o2 : alpha) { if (!sys.pre(after, o2)) continue; mark(hist_str(sys.cfg, h2, &o2)); typename Sys<T>::M m3; sys.step(h2, &o2, m3); st.transitions++; st.evals++; st.nontrivial++; }
        }
    }
}

// "exactly those values": a fill value must arrive bit for bit (negative zero compares equal to zero, a NaN to nothing; both have their own representation)
template<typename F> void fill_values(const char *tn) {
    const F vals[] = {F(0), -F(0), F(1.5), std::numeric_limits<F>::quiet_NaN(), std::numeric_limits<F>::denorm_min(), -std::numeric_limits<F>::denorm_min(), std::numeric_limits<F>::infinity()};
    const char *vn[] = {"+0", "-0", "1.5", "NaN", "denorm_min", "-denorm_min", "inf"};
    auto same = [](const F &a, const F &b) { return std::signbit(a) == std::signbit(b) && ((std::isnan(a) && std::isnan(b)) || a == b); };
    for (int vi = 0; vi < 7; vi++) for (size_t n : {(size_t)1, (size_t)3, (size_t)1000}) {
        std::string hist = fmt("fill T=%s value=%s n=%zu", tn, vn[vi], n);
        mark(hist); shm->evaluations++; shm->transitions++; shm->nontrivial++;
        { Array<F> a(n, vals[vi]); for (size_t i = 0; i < n; i++) if (!same(a[i], vals[vi])) { violation("model:fill-value", fmt("Array<%s>(%zu, %s): element %zu is not the fill value (it differs in sign or kind)", tn, n, vn[vi], i), hist); break; } }
        { Array<F> a(2, F(7)); a.resize(2 + n, vals[vi]); if (a[0] != F(7) || a[1] != F(7)) violation("model:fill-value", "resize(n, value) changed the kept elements", hist);
          for (size_t i = 2; i < 2 + n; i++) if (!same(a[i], vals[vi])) { violation("model:fill-value", fmt("Array<%s>::resize(%zu, %s): new element %zu is not the fill value (it differs in sign or kind)", tn, 2 + n, vn[vi], i), hist); break; } }
    }
}

void explore() {
    fill_values<float>("float"); fill_values<double>("double"); fill_values<long double>("longdouble");
    int maxlen = thorough() ? 4 : 3;
    std::set<std::string> seen; Stats st;
    bfs<int>(maxlen, seen, st);
    bfs<Tracked>(maxlen, seen, st);
    bfs<Cell>(maxlen, seen, st);
    uint64_t bt = st.transitions, bs = st.states;
    {
        std::vector<int> lens; for (int n = maxlen + 1; n <= (thorough() ? 70 : 66); n++) if (thorough() || n <= 9 || (n >= 15 && n <= 18) || (n >= 31 && n <= 34) || n >= 63) lens.push_back(n);
        wide<int>(lens, st); wide<Tracked>(lens, st); wide<Cell>(lens, st);
        sx::detail(fmt("long arrays (%d..%d%s) from every construction path: every operation and every second operation, resize targets 0, 1, half, length-1, length, length+1, 2 x length, writes to the first, middle and last element",
                       lens.front(), lens.back(), thorough() ? "" : ": 4..9, 15..18, 31..34, 63..66"));
    }
    int depth = thorough() ? 4 : 3;
    enumerate<int>(2, depth, st);
    enumerate<Tracked>(2, depth, st);
    enumerate<Cell>(2, depth, st);
    shm->validated = st.transitions;
    sx::detail(fmt("breadth-first search to fixpoint from every construction path x length 0..%d for int, a lifetime-tracked class type and a trivially copyable class with member initialisers (default construction observable): %llu states, %llu transitions; plus every history to depth %d (lengths <= 2) without deduplication: %llu more transitions",
               maxlen, (unsigned long long)bs, (unsigned long long)bt, depth, (unsigned long long)(st.transitions - bt)));
}

void replay(const std::string &hist) {
    if (hist.compare(0, 5, "fill ") == 0) { if (hist.find("T=float") != std::string::npos) fill_values<float>("float"); else if (hist.find("T=double") != std::string::npos) fill_values<double>("double"); else fill_values<long double>("longdouble"); return; }
    Config c; std::vector<Op> h;
    if (!parse_hist(hist, c, h)) { violation("replay:parse", "cannot parse history " + hist); return; }
    auto go = [&](auto sys) {
        sys.cfg = c; typename decltype(sys)::M m;
        if (h.empty()) { sys.step({}, nullptr, m); return; }
        Op last = h.back(); std::vector<Op> pre(h.begin(), h.end() - 1);
        sys.step(pre, &last, m);
    };
    if (c.type == TY_TRACKED) go(Sys<Tracked>{}); else if (c.type == TY_CELL) go(Sys<Cell>{}); else go(Sys<int>{});
}
}  // namespace

int main(int argc, char **argv) {
    Harness h;
    h.name = "array";
    h.rule = "explicit-state search: a state is (construction path, operation history) replayed on fresh real Arrays A (under test) and B (partner for assignment/swap), keyed by the implementation's sizes and pointers; "
             "breadth-first to fixpoint from every construction path (pointer+length copy, initializer list, size, size+fill, default, adopting malloc'ed storage) x every length, with every operation (copy-construct + write-through test, "
             "move round trip, copy-/move-assign from B, swap, resize(n), resize(n,v), element write, self-assignment, assignment from an empty array) applied in every state; element types int, a lifetime-tracked class and a trivially copyable class with member initialisers; "
             "after every transition contents, sizes, iteration and the set of live element objects are compared with std::vector models; non-trivial = a non-empty array is involved";
    h.assumptions = {"element values do not influence Array's control flow (fresh labels are used)", "values of arithmetic elements that were never written are not read (Array leaves them indeterminate)",
                     "adoption (copy=false) is exercised with malloc'ed storage holding constructed elements only", "lengths up to the stated bound"};
    h.explore = explore;
    h.replay = replay;
    return run_main(argc, argv, h);
}
