#!/usr/bin/env python3
"""Generates /verif/selftest/<name>.diff: realistic property-breaking edits of tulz (relative to /repo's current tree) that
the repository's own tests still pass.  Each entry: (name, properties expected to detect it, file, old text, new text)."""
import difflib, json, os, sys

REPO = os.environ.get("VERIF_REPO", "/repo")
OUT = os.path.join(os.path.dirname(os.path.dirname(os.path.abspath(__file__))), "selftest")

M = []
def mut(name, props, file, old, new, why=""):
    M.append(dict(name=name, props=props, file=file, old=old, new=new, why=why))

RES = "src/threading/rwp/Resource.cpp"
# ---- reversals of the fixes
mut("revert-resource-fix", ["C01", "C02", "C11"], RES,
    "        m_activeOp = opType;\n        ++m_activeCount;\n    } else {", "        m_activeOp = opType;\n    } else {", "holders counted on wake-up again (3 edits)")
mut("revert-stop-fix", ["C08", "C15"], "src/threading/ThreadPool.cpp",
    "    {\n        // the flag is part of the workers' wait predicate, so it must change under the queue mutex:\n        // otherwise a worker that has just evaluated the predicate misses the notification below\n        std::scoped_lock locker(m_queueMutex);\n        m_isRunning = false;\n    }\n",
    "    m_isRunning = false;\n")
mut("revert-isfinished-atomic", ["C15"], "include/tulz/threading/Thread.h", "    std::atomic<bool> m_isFinished {false};", "    bool m_isFinished = false;")
mut("revert-thread-capture", ["C20"], "include/tulz/threading/Thread.h", "[this, ptr = std::move(ptr), &args...]() mutable {", "[&]() {")
mut("revert-ring-resize", ["C09"], "include/tulz/container/RingBuffer.h", "m_data[dataIndex(copyCount + i)].~T();", "m_data[copyCount + i].~T();")
mut("revert-ring-copyassign", ["C09"], "include/tulz/container/RingBuffer.h",
    "        // release the current contents first\n        for (T &element : *this)\n            element.~T();\n        free(m_data);\n\n", "")
mut("revert-array-ptr-ctor", ["C14"], "include/tulz/container/Array.h",
    "                m_array = static_cast<T*>(malloc(size * sizeof(T)));\n\n                for (size_t i = 0; i < size; i++) {\n                    new (&m_array[i]) T(array[i]);",
    "                m_array = static_cast<T*>(malloc(m_size * sizeof(T)));\n\n                for (size_t i = 0; i < m_size; i++) {\n                    new (&m_array[i]) T(array[i]);")
mut("revert-subject-notify", ["C10"], "include/tulz/observer/Subject.h", "if (isSubscriptionIdValid(subscriptionId) && !observer->isValid()) {", "if (!observer->isValid()) {")
mut("revert-router-forwarding", ["C06"], "include/tulz/observer/routing/SubjectRouter.h", "node.template notify<Args...>(nextLevel, static_cast<Args>(args)...);", "node.notify(nextLevel, args...);")
mut("revert-locale-bounds", ["C19"], "src/LocaleInfo.cpp", "if (delim && static_cast<size_t>(delim - locale) <= maxLen) {", "if (delim) {")
mut("revert-locale-language-required", ["C19"], "src/LocaleInfo.cpp", "bool isLanguageFound = !result.languages.empty();", "bool isLanguageFound = true;")
mut("revert-locale-all-names", ["C19"], "src/LocaleInfo.cpp",
    "            if (result.languageCode != nullptr && strcmp(inf.code, result.languageCode) == 0) {", "            if (result.languageCode != nullptr && strcmp(inf.value, buffer) == 0) {")
mut("revert-locale-country-length", ["C19"], "src/LocaleInfo.cpp", "            if (length <= maxLen) {\n                memset", "            if (true) {\n                memset")

# ---- Resource
mut("resource-lifo", ["C03"], RES, "    auto op = m_queue.front();\n    m_queue.pop_front();", "    auto op = m_queue.back();\n    m_queue.pop_back();", "serves the queue from the back")
mut("resource-readers-barge", ["C03"], RES,
    "    if (m_queue.empty() && (m_activeOp == OpType::None || (m_activeOp == opType && opType == OpType::Read))) {",
    "    if ((m_queue.empty() && m_activeOp == OpType::None) || (m_activeOp == opType && opType == OpType::Read)) {", "readers join active readers although a writer waits")
mut("resource-no-read-batching", ["C12"], RES,
    "        if (auto &op = m_queue.back(); op.type == OpType::Read) {", "        if (auto &op = m_queue.back(); false && op.type == OpType::Read) {", "queued readers admitted one at a time")
mut("resource-readers-serialised", ["C12"], RES,
    "(m_activeOp == opType && opType == OpType::Read))) {", "(m_activeOp == opType && opType == OpType::Read && m_idCounter == 0))) {", "readers stop sharing once the queue has ever been used")
mut("resource-notify-one", ["C02", "C12"], RES, "        m_cv.notify_all();", "        m_cv.notify_one();", "only one admitted waiter is woken")
mut("resource-writer-joins-writer", ["C01"], RES, "(m_activeOp == opType && opType == OpType::Read))) {", "(m_activeOp == opType))) {", "a second writer enters while a writer holds")
mut("resource-reset-too-early", ["C02"], RES, "    if (--m_activeCount == 0) {\n        select();", "    if (--m_activeCount == 0 || m_queue.empty()) {\n        select();", "select() while readers still hold")

# ---- ThreadPool / Thread
TP = "src/threading/ThreadPool.cpp"
mut("pool-clear-no-lock", ["C15"], TP, "void ThreadPool::clear() {\n    std::scoped_lock locker(m_queueMutex);\n", "void ThreadPool::clear() {\n", "clear() without the queue mutex")
mut("pool-delete-before-run", ["C07"], TP, "        runnable->run();\n\n        m_pooledThread->setLastActiveTime(time());\n\n        delete runnable;", "        delete runnable;\n\n        runnable->run();\n\n        m_pooledThread->setLastActiveTime(time());")
mut("pool-run-under-peek", ["C07"], TP, "            auto qFront = queue.begin();\n            runnable = *qFront;\n            queue.erase(qFront);\n        }\n\n        runnable->run();",
    "            auto qFront = queue.begin();\n            runnable = *qFront;\n        }\n\n        runnable->run();\n\n        {\n            std::unique_lock locker(m_threadPool->m_queueMutex);\n            if (!m_threadPool->m_queue.empty()) m_threadPool->m_queue.pop_front();\n        }",
    "task stays in the queue while it runs: a second worker or clear() sees it")
mut("pool-stop-no-join", ["C08", "C07"], TP, "            thread->join();\n            delete thread;\n        }\n\n        m_pool.clear();\n    }\n\n    clear();", "            thread->std_thread().detach();\n        }\n\n        m_pool.clear();\n    }\n\n    clear();", "stop() detaches instead of joining")
mut("pool-no-max", ["C08"], TP, "(m_maxThreadCount > m_pool.size() || m_maxThreadCount < 0)", "(m_maxThreadCount >= m_pool.size() || m_maxThreadCount < 0)", "one worker too many")
mut("pool-stop-keeps-queue", ["C08", "C07"], TP, "        m_pool.clear();\n    }\n\n    clear();\n}", "        m_pool.clear();\n    }\n}", "queued tasks survive stop()")
mut("pool-wait-without-loop", ["C07"], TP,
    "            m_threadPool->m_condition.wait(locker, [&]() {\n                auto passedTime = time() - m_pooledThread->getLastActiveTime();\n                auto expiryTimeout = m_threadPool->getExpiryTimeout();\n\n                isExpired = (expiryTimeout >= 0) && (passedTime > expiryTimeout);\n\n                return !queue.empty() || !m_threadPool->isRunning() || isExpired;\n            });",
    "            auto ready = [&]() {\n                auto passedTime = time() - m_pooledThread->getLastActiveTime();\n                auto expiryTimeout = m_threadPool->getExpiryTimeout();\n\n                isExpired = (expiryTimeout >= 0) && (passedTime > expiryTimeout);\n\n                return !queue.empty() || !m_threadPool->isRunning() || isExpired;\n            };\n\n            if (!ready()) {\n                m_threadPool->m_condition.wait(locker);\n                ready();\n            }",
    "the worker waits once instead of in a predicate loop: correct as long as every wake-up is a notification that made the predicate true; a spurious wake-up (or update()) makes it pop an empty queue")
# (a worker that drains the queue after stop() was requested is NOT a violation: the tasks still run before stop() returns)
mut("thread-finished-early", ["C20"], "src/threading/Thread.cpp", "        runnable->run();\n        delete runnable;\n\n        m_isFinished = true;", "        m_isFinished = true;\n        runnable->run();\n        delete runnable;\n")
mut("thread-template-finished-early", ["C20"], "include/tulz/threading/Thread.h", "            ptr(std::forward<Args>(args)...);\n            m_isFinished = true;", "            m_isFinished = true;\n            ptr(std::forward<Args>(args)...);")
mut("thread-runnable-leak", ["C20"], "src/threading/Thread.cpp", "        runnable->run();\n        delete runnable;\n", "        runnable->run();\n")

# ---- router (concurrent)
CSR = "include/tulz/observer/routing/ConcurrentSubjectRouter.h"
mut("crouter-subscribe-readlock", ["C11", "C15"], CSR, "        rwp::WriteLock lock {m_resource};\n        return Subscription(", "        rwp::ReadLock lock {m_resource};\n        return Subscription(")
mut("crouter-shrink-readlock", ["C15"], CSR, "        rwp::WriteLock lock {m_resource};\n        m_router.shrink(key);", "        rwp::ReadLock lock {m_resource};\n        m_router.shrink(key);")
mut("crouter-notify-nolock", ["C11", "C15"], CSR, "        rwp::ReadLock lock {m_resource};\n        return m_router.notify(", "        return m_router.notify(")
mut("crouter-unsubscribe-nolock", ["C11", "C15"], CSR, "        rwp::WriteLock lock {m_resource};\n        DefaultInvoker<Args...>::unsubscribe();", "        DefaultInvoker<Args...>::unsubscribe();")

# ---- RingBuffer / Array
RB = "include/tulz/container/RingBuffer.h"
mut("ring-modcap-no-negative", ["C04"], RB, "        return ((a % b) + b) % b;", "        return a % b;", "index arithmetic breaks for negative offsets")
mut("ring-emplace-front-order", ["C04"], RB, "        m_pos = modCap(m_pos - 1);\n\n        if (full()) {\n            // overwrite: size remains unchanged, last element gets discarded\n            m_data[m_pos] = T(std::forward<Args>(args)...);",
    "        if (full()) {\n            // overwrite: size remains unchanged, last element gets discarded\n            m_data[m_pos] = T(std::forward<Args>(args)...);\n            return front();\n        }\n\n        m_pos = modCap(m_pos - 1);\n\n        if (full()) {", "push_front on a full overwriting buffer replaces the front instead of discarding the back")
mut("ring-resize-branch", ["C04", "C09"], RB, "        if (m_pos <= lastIndex && lastIndex < newCapacity) {", "        if (lastIndex < newCapacity) {", "in-place realloc taken for wrapped layouts")
mut("ring-resize-keeps-back", ["C04"], RB, "            silentCopy(newData, copyCount);\n\n            // delete extra", "            m_pos = modCap(m_pos + deleteCount); silentCopy(newData, copyCount); m_pos = modCap(m_pos - deleteCount);\n\n            // delete extra", "shrink keeps the elements nearest the back")
mut("ring-popback-no-move", ["C09"], RB, "        --m_size;\n        return std::move(m_data[dataIndex(m_size)]);", "        --m_size;\n        return m_data[dataIndex(m_size)];", "pop_back copies: the popped value stays alive in the vacated slot")
mut("ring-move-assign-leak", ["C09"], RB, "        std::swap(m_pos, other.m_pos);\n        std::swap(m_size, other.m_size);\n        std::swap(m_capacity, other.m_capacity);\n        std::swap(m_data, other.m_data);",
    "        m_pos = other.m_pos; m_size = other.m_size; m_capacity = other.m_capacity; m_data = other.m_data;\n        other.m_pos = 0; other.m_size = 0; other.m_capacity = 0; other.m_data = nullptr;", "move assignment drops the old contents without destroying them")
AR = "include/tulz/container/Array.h"
mut("array-resize-value-skips", ["C14"], AR, "            for (size_t i = m_size; i < size; ++i) {\n                new (&m_array[i]) T(value);", "            for (size_t i = m_size + 1; i < size; ++i) {\n                new (&m_array[i]) T(value);", "first new element of resize(n, v) left unconstructed")
mut("array-shallow-copy-nonclass", ["C14"], AR, "        if constexpr (!std::is_class_v<T>) {\n            memcpy(m_array, src.m_array, m_size * sizeof(T));", "        if constexpr (!std::is_class_v<T>) {\n            memcpy(m_array, src.m_array, (m_size > 2 ? 2 : m_size) * sizeof(T));", "copy of arithmetic arrays truncated to 2 elements")
mut("array-resize-no-destroy", ["C14"], AR, "    void resize(size_t size) {\n        destroy(size, m_size);\n", "    void resize(size_t size) {\n", "shrinking resize does not destroy the cut-off elements")

# ---- Subject / Observable
SJ = "include/tulz/observer/Subject.h"
mut("subject-storage-order", ["C05"], SJ, "            cachedDetails.emplace_front(details.observer.get(), details.subscriptionId);", "            cachedDetails.emplace_front(details.observer.get(), details.subscriptionId);\n        cachedDetails.reverse();", "observers notified newest first")
mut("subject-no-id-recheck", ["C10"], SJ, "            if (isSubscriptionIdValid(subscriptionId)) {\n                (*observer)(args...);", "            if (true) {\n                (*observer)(args...);", "observers removed before their turn are still called (dangling)")
mut("subject-unsubscribe-half", ["C05"], SJ, "        });\n\n        m_activeSubscriptions.erase(subscriptionId);", "        });\n", "id stays active after unsubscribe: handle still valid, double unsubscribe accepted")
mut("subject-accepts-foreign", ["C05"], SJ, "        return subscription.m_subject == this && isSubscriptionIdValid(subscription.getId());", "        return isSubscriptionIdValid(subscription.getId());", "a handle of another subject with the same id is accepted")
mut("subject-keeps-invalid", ["C05"], SJ, "                if (isSubscriptionIdValid(subscriptionId) && !observer->isValid()) {\n                    unsubscribeById(subscriptionId);\n                }", "", "invalidated observers are never removed")
OB = "include/tulz/observer/Observable.h"
mut("observable-notify-before-store", ["C16"], OB, "            m_val = std::forward<V>(val);\n            m_subject.notify(m_val);", "            m_subject.notify(m_val);\n            m_val = std::forward<V>(val);")
mut("observable-apply-compares-new", ["C16"], OB, "        if (!m_eq(old, m_val)) {", "        if (!m_eq(m_val, m_val)) {")
mut("observable-minus-is-plus", ["C16"], OB, "            val -= std::forward<V>(other);", "            val += std::forward<V>(other);")
mut("observable-postdec-returns-new", ["C16"], OB, "        auto prev = m_val;\n        --m_val;\n        m_subject.notify(m_val);\n        return prev;", "        --m_val;\n        m_subject.notify(m_val);\n        return m_val;")
mut("observable-assign-always-stores", ["C16"], OB, "        if (!m_eq(m_val, val)) {\n            m_val = std::forward<V>(val);\n            m_subject.notify(m_val);\n        }", "        bool changed = !m_eq(m_val, val);\n        m_val = std::forward<V>(val);\n        if (changed) {\n            m_subject.notify(m_val);\n        }", "an Eq-equal assignment overwrites the stored value")

# ---- SubjectRouter
SR = "src/observer/routing/SubjectRouter.cpp"
mut("router-shrink-erase-first", ["C13"], SR, "    // shrink the next level first\n", "    std::erase_if(m_children, [](auto &p) {\n        return p.second.isEmpty();\n    });\n    return;\n    // shrink the next level first\n", "erases before recursing: dead branches below survive")
mut("router-isempty-ignores-children", ["C13", "C06"], SR, "    return (m_subject == nullptr || !m_subject->hasSubscriptions()) && m_children.empty();", "    return (m_subject == nullptr || !m_subject->hasSubscriptions());", "nodes with live descendants are erased")
mut("router-exists-nonleaf", ["C13"], SR, "        if (auto it = m_children.find(nextLevel.asString()); it != m_children.end())\n            return it->second.exists(nextLevel);\n        return false;", "        if (auto it = m_children.find(nextLevel.asString()); it != m_children.end())\n            return it->second.exists(nextLevel);\n        return !m_children.empty();", "exists() true below an existing parent for a missing child")
mut("router-depth-min", ["C13"], SR, "        maxDepth = std::max(maxDepth, node.depth());", "        maxDepth = std::max<size_t>(maxDepth, 1);", "depth() ignores grandchildren")
mut("router-regex-search", ["C06"], "src/observer/routing/RoutingLevelView.cpp", "std::regex_match(levelName.begin(), levelName.end(), *regex)", "std::regex_search(levelName.begin(), levelName.end(), *regex)", "regex levels match substrings")
mut("router-notify-prefix", ["C06"], "include/tulz/observer/routing/SubjectRouter.h", "    if (levelView.isLeaf()) {\n        if (m_subject != nullptr) {", "    if (levelView.isLeaf() || m_children.empty()) {\n        if (m_subject != nullptr) {", "a longer pattern reaches the observers of a prefix key")
mut("router-count-observers", ["C06"], "include/tulz/observer/routing/SubjectRouter.h", "            subject.notify(std::forward<Args>(args)...);\n            return 1;", "            subject.notify(std::forward<Args>(args)...);\n            return subject.hasSubscriptions() ? 1 : 0;", "keys with an empty subject are not counted")

# ---- size thresholds: behaviour that changes above a size no small-scope search reaches
mut("threshold-ring-modcap-32", ["C04", "C09"], "include/tulz/container/RingBuffer.h",
    "        auto b = (ssize_t) m_capacity;\n", "        auto b = (ssize_t) m_capacity;\n        if (b >= 32) return a >= b ? a - b : a;      // large buffers: avoid the two divisions\n",
    "index arithmetic without the negative case for capacities >= 32")
mut("threshold-array-grow-33", ["C14"], "include/tulz/container/Array.h",
    "        destroy(size, m_size);\n\n        m_array = static_cast<T*>(realloc(m_array, size * sizeof(T)));\n\n        if (size > m_size)\n            initialize(m_size, size);\n",
    "        destroy(size, m_size);\n\n        if (size > 32 && size > m_size) {\n            auto fresh = static_cast<T*>(malloc(size * sizeof(T)));\n            std::memcpy(fresh, m_array, size * sizeof(T));\n            free(m_array);\n            m_array = fresh;\n        } else\n        m_array = static_cast<T*>(realloc(m_array, size * sizeof(T)));\n\n        if (size > m_size)\n            initialize(m_size, size);\n",
    "growing beyond 32 elements copies the new length out of the old block")
mut("threshold-router-fanout-32", ["C06"], "include/tulz/observer/routing/SubjectRouter.h",
    "            for (auto & [name, node] : m_children)\n                notifyCount += node.template notify<Args...>(nextLevel, static_cast<Args>(args)...);\n",
    "            size_t budget = 32;\n            for (auto & [name, node] : m_children) {\n                if (budget-- == 0) break;\n                notifyCount += node.template notify<Args...>(nextLevel, static_cast<Args>(args)...);\n            }\n",
    "a wildcard level reaches at most 32 children")

# ---- state shared between objects: invisible while one object is alive at a time
mut("subject-round-buffer-shared-between-subjects", ["C10", "C05"], "include/tulz/observer/Subject.h",
    "        std::forward_list<CachedDetails> cachedDetails;\n\n        for (auto &details : m_observers)",
    "        // the outermost round of a subject reuses one per-thread list; a nested round on the same subject gets its own\n"
    "        static thread_local std::forward_list<CachedDetails> shared;\n        static thread_local const void *owner = nullptr;\n"
    "        std::forward_list<CachedDetails> own;\n        auto &cachedDetails = owner == this ? own : shared;\n"
    "        struct Restore { const void *&o; const void *p; ~Restore() { o = p; } } restore{owner, owner};\n        owner = this;\n        cachedDetails.clear();\n\n"
    "        for (auto &details : m_observers)",
    "a callback that notifies ANOTHER Subject refills the list the round in progress is walking")

mut("pool-condition-shared-between-pools", ["C07"], "include/tulz/threading/ThreadPool.h",
    "    std::condition_variable m_condition;\n", "    static inline std::condition_variable m_condition;      // one wake-up channel for all pools\n",
    "a notify_one meant for this pool's worker may wake an idle worker of another pool")

# ---- File / Path / DirectoryVisitor
FI = "src/File.cpp"
mut("file-size-no-restore", ["C17"], FI, "    fseek(m_file, prevPos, SEEK_SET);\n", "", "size() leaves the position at the end")
mut("file-text-eof-by-value", ["C17"], FI, "            fgetc(m_file);\n            return feof(m_file);", "            return (char) fgetc(m_file) == (char) EOF;", "0xFF ends a text-mode read")
mut("file-append-truncates", ["C17"], FI, 'case Mode::Append: return "ab";', 'case Mode::Append: return "wb";')
mut("file-readstr-cstring", ["C17"], FI, "    return {reinterpret_cast<char const *>(data.array()), data.size()};", "    return data.size() ? std::string(reinterpret_cast<char const *>(data.array()), strnlen(reinterpret_cast<char const *>(data.array()), data.size())) : std::string();", "readStr stops at NUL")
mut("file-missing-creates", ["C17"], FI, "    if (!path.exists() && !isWriteMode())\n        throw Exception(\"File \" + pathStr + \" not found\", Path::NotFound);\n", "    if (!path.exists() && !isWriteMode())\n        throw Exception(\"File \" + pathStr + \" not found\", Path::NotFile);\n", "wrong error type for a missing file")
PA = "src/Path.cpp"
mut("path-list-includes-dotdot", ["C18"], PA, 'strcmp(name, ".") == 0 || strcmp(name, "..") == 0) {\n            continue;\n        }\n\n        result.emplace_front(name);\n    }\n\n    closedir(dir);', 'strcmp(name, ".") == 0) {\n            continue;\n        }\n\n        result.emplace_front(name);\n    }\n\n    closedir(dir);')
mut("path-list-hides-dotfiles", ["C18"], PA, 'if (strcmp(name, ".") == 0 || strcmp(name, "..") == 0) {\n            continue;\n        }\n\n        result.emplace_front(name);\n    }\n\n    closedir(dir);', 'if (name[0] == \'.\') {\n            continue;\n        }\n\n        result.emplace_front(name);\n    }\n\n    closedir(dir);')
mut("path-size-one-level", ["C18"], PA, "            size += Path::join(*this, child).size();", "            if (Path::join(*this, child).isFile()) size += Path::join(*this, child).size();", "directory size ignores nested directories")
mut("path-join-no-sep-check", ["C18"], PA, "    if (p1.back() != Separator && p1.back() != SystemSeparator)\n        return p1 + SystemSeparator + p2;\n\n    return p1 + p2;", "    return p1 + SystemSeparator + p2;", "join doubles the separator after a trailing one")
mut("path-name-trailing", ["C18"], PA, "    return string(m_path).erase(0, index + 1);", "    return index == string::npos ? m_path : string(m_path).erase(0, index);", "getPathName keeps the separator")
mut("visitor-no-restore", ["C18"], "src/DirectoryVisitor.cpp", "DirectoryVisitor::~DirectoryVisitor() {\n    restore();\n}", "DirectoryVisitor::~DirectoryVisitor() {\n}")
mut("visitor-restore-relative", ["C18"], "src/DirectoryVisitor.cpp", "        m_oldDir = Path::getWorkingDirectory();", "        m_oldDir = Path(\"..\");", "restores to the parent instead of the previous directory")

def main():
    os.makedirs(OUT, exist_ok=True)
    index = []
    for m in M:
        path = os.path.join(REPO, m["file"])
        src = open(path).read()
        if m["name"] == "revert-resource-fix":
            # three coordinated edits
            new = src.replace("        m_activeOp = opType;\n        ++m_activeCount;\n    } else {", "        m_activeOp = opType;\n    } else {")
            new = new.replace("        });\n\n        // admitted waiters have already been counted by select()\n    }\n}", "        });\n    }\n\n    ++m_activeCount;\n}")
            new = new.replace("    m_activeCount = static_cast<size_t>(op.upperBound - m_upperUnlockBound);\n", "")
        else:
            if src.count(m["old"]) != 1:
                print("SKIP %s: old text occurs %d times in %s" % (m["name"], src.count(m["old"]), m["file"]))
                continue
            new = src.replace(m["old"], m["new"])
        if new == src:
            print("SKIP %s: no change" % m["name"]); continue
        d = "".join(difflib.unified_diff(src.splitlines(True), new.splitlines(True), "a/" + m["file"], "b/" + m["file"]))
        open(os.path.join(OUT, m["name"] + ".diff"), "w").write(d)
        index.append({"name": m["name"], "expected": m["props"], "file": m["file"], "why": m["why"]})
    json.dump(index, open(os.path.join(OUT, "index.json"), "w"), indent=1)
    print("wrote %d mutants" % len(index))

if __name__ == "__main__":
    main()
