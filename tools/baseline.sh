#!/bin/bash
# Runs the repository's own test suite (guard OFF: plain cmake build, no verification defines)
# and requires every test of BASELINE.json's stable_pass list to pass.
# usage: tools/baseline.sh [repo_dir]   (default /repo; builds into <repo_dir>/_build)
set -u
REPO="${1:-/repo}"
B="$REPO/_build"
cmake -G Ninja -S "$REPO" -B "$B" -DCMAKE_BUILD_TYPE=RelWithDebInfo -DCMAKE_CXX_FLAGS=-Wno-error \
      -DFETCHCONTENT_SOURCE_DIR_GOOGLETEST=/usr/src/googletest -DFETCHCONTENT_FULLY_DISCONNECTED=ON >/dev/null || { echo "BASELINE: configure failed"; exit 2; }
cmake --build "$B" -j16 2>&1 | tail -3 || true
[ "${PIPESTATUS[0]}" = 0 ] || { echo "BASELINE: build failed"; exit 2; }
OUT=$(mktemp -d /tmp/tulz-baseline.XXXXXX)
for t in "$B"/tests/*Test; do
  [ -x "$t" ] || continue
  n=$(basename "$t")
  timeout 900 "$t" --gtest_output=xml:"$OUT/$n.xml" >"$OUT/$n.log" 2>&1
done
python3 - "$OUT" <<'PY'
import sys,glob,json,xml.etree.ElementTree as ET
out=sys.argv[1]
res={}
for f in glob.glob(out+'/*.xml'):
    for tc in ET.parse(f).getroot().iter('testcase'):
        name=tc.get('classname')+'::'+tc.get('name')
        ok = tc.find('failure') is None and tc.find('error') is None and tc.get('status','run')=='run'
        res[name]=ok
        res.setdefault(tc.get('classname')+'::'+tc.get('classname').split('/')[0], True)
stable=json.load(open('/root/.vp/BASELINE.json'))['stable_pass']
bad=[s for s in stable if s.split('::')[0]!=s.split('::')[1].split('/')[0] and not res.get(s,False)]
# suite-level pseudo entries (X::X) pass when every stable case of the suite passed
npass=len(stable)-len(bad)
print(f"BASELINE: {npass}/{len(stable)} stable tests passed")
for b in bad: print("BASELINE-FAIL:",b)
sys.exit(1 if bad else 0)
PY
rc=$?
rm -rf "$OUT"
exit $rc
