// E2 harness for tulz::Subject / Subscription / Observer: C05 (delivery to exactly the live, unmuted observers, in order)
// and C10 (callbacks that change the Subject during notify).
#include <tulz/observer/Subject.h>

#include <deque>
#include <memory>
#include <set>
#include <string>
#include <tuple>
#include <vector>

#include "seqx.h"

using namespace sx;
using namespace tulz;

namespace {
// ------------------------------------------------------------------ observer life-time tokens
std::vector<int> g_tokens;     // per observer id: number of live copies of its token (0 = the observer object is gone)
struct Token {
    int id;
    explicit Token(int i) : id(i) { if ((int)g_tokens.size() <= id) g_tokens.resize(id + 1, 0); g_tokens[id]++; }
    Token(const Token &o) : id(o.id) { g_tokens[id]++; }
    Token(Token &&o) noexcept : id(o.id) { g_tokens[id]++; }
    Token &operator=(const Token &) = default;
    ~Token() { if (--g_tokens[id] < 0) violation("lifetime:observer-double-destroy", fmt("observer %d was destroyed more often than it was created", id)); }
};

struct Call { int obs; std::string args; };
std::vector<Call> g_calls;

std::string show() { return ""; }
std::string show1(int v) { return std::to_string(v); }
std::string show1(const std::string &s) { return "'" + s + "'"; }
template<typename A, typename... R> std::string show(const A &a, const R &...r) { std::string s = show1(a); if constexpr (sizeof...(R) > 0) s += "," + show(r...); return s; }

// ------------------------------------------------------------------ signatures: how to call notify with value #k
template<typename... Args> struct Sig;
template<> struct Sig<> { static constexpr const char *name = "void"; static const int nvalues = 1;
    static std::string notify(Subject<> &s, int) { s.notify(); return ""; } };
template<> struct Sig<int> { static constexpr const char *name = "int"; static const int nvalues = 2;
    static std::string notify(Subject<int> &s, int k) { int v = k ? -7 : 42; s.notify(v); return show(v); } };
const std::string LONGSTR = "a payload string that is too long for the small-string buffer";
template<> struct Sig<const std::string &> { static constexpr const char *name = "cstr"; static const int nvalues = 2;
    static std::string notify(Subject<const std::string &> &s, int k) { std::string v = k ? LONGSTR : "x"; s.notify(v); return show(v); } };
template<> struct Sig<std::string, int> { static constexpr const char *name = "str,int"; static const int nvalues = 2;
    static std::string notify(Subject<std::string, int> &s, int k) { std::string v = k ? LONGSTR : ""; s.notify(v, k); return show(v, k); } };

// ------------------------------------------------------------------ C05: history exploration
enum OpKind { SUB_L, SUB_SV, SUB_UP, SUB_RAW, UN_H, UN_S, UN_S_BAD, MUTE, UNMUTE, INVAL, MVA, MVC, NOTIFY, NKINDS };
const char *kname[] = {"subL", "subSV", "subUP", "subRAW", "unH", "unS", "unSbad", "mute", "unmute", "inval", "mva", "mvc", "notify"};
struct Op { int kind, a, b; };
std::string op_str(const Op &o) { std::string s = kname[o.kind]; s += std::to_string(o.a); if (o.kind == MVA) s += "_" + std::to_string(o.b); return s; }
bool parse_ops(const std::string &text, std::vector<Op> &h) {
    std::stringstream ss(text); std::string tok;
    while (ss >> tok) {
        int best = -1;
        for (int k = 0; k < NKINDS; k++) { size_t n = strlen(kname[k]); if (tok.compare(0, n, kname[k]) == 0 && tok.size() > n && isdigit((unsigned char)tok[n]) && (best < 0 || n > strlen(kname[best]))) best = k; }
        if (best < 0) return false;
        Op o{best, atoi(tok.c_str() + strlen(kname[best])), 0};
        size_t u = tok.find('_'); if (u != std::string::npos) o.b = atoi(tok.c_str() + u + 1);
        h.push_back(o);
    }
    return true;
}

const int NSLOT = 3;

struct MObs { int id; bool muted = false, valid = true; };
struct MSlot { char st = 'D'; int obs = -1; };     // D default/cleared, V valid, S stale (observer was removed lazily by the subject)
struct Model { std::vector<MObs> obs; MSlot slot[NSLOT]; int next_id = 0; std::vector<bool> alive; };

template<typename... Args> struct Sys {
    using Subj = Subject<Args...>;
    using Sub = Subscription<Args...>;
    using S = Sig<Args...>;

    struct Derived : EternalObserver<Args...> {
        Token tok;
        Derived(int id) : EternalObserver<Args...>([id](Args... a) { g_calls.push_back(Call{id, show(a...)}); }), tok(id) {}
    };

    std::unique_ptr<Subj> subject, foreign;
    Sub handle[NSLOT];
    Sub foreign_handle;
    Model m;
    int maxobs;

    void bad(const std::string &sig, const std::string &msg) { violation(sig, msg); }

    MObs *mobs(int id) { for (auto &o : m.obs) if (o.id == id) return &o; return nullptr; }

    bool pre(const Op &o) {
        auto valid_slot = [&](int i) { return m.slot[i].st == 'V'; };
        switch (o.kind) {
        case SUB_L: case SUB_SV: case SUB_UP: case SUB_RAW: return m.slot[o.a].st != 'V' && (int)m.obs.size() < maxobs;
        case UN_H: case UN_S: case MUTE: case UNMUTE: case INVAL: case MVC: return valid_slot(o.a);
        case UN_S_BAD: return o.a < NSLOT ? m.slot[o.a].st != 'V' : true;      // stale/default slot, or (a == NSLOT) a foreign handle
        case MVA: return o.a != o.b;
        case NOTIFY: return o.a < S::nvalues;
        }
        return false;
    }

    void apply(const Op &o, bool check) {
        switch (o.kind) {
        case SUB_L: case SUB_SV: case SUB_UP: case SUB_RAW: {
            int id = m.next_id++;
            Token tok(id);
            if (o.kind == SUB_L) handle[o.a] = subject->subscribe([id, tok](Args... a) { g_calls.push_back(Call{id, show(a...)}); });
            else if (o.kind == SUB_SV) handle[o.a] = subject->subscribe([id, tok](typename Observer<Args...>::SelfView self, Args... a) { (void)self; g_calls.push_back(Call{id, show(a...)}); });
            else if (o.kind == SUB_UP) handle[o.a] = subject->subscribe(std::make_unique<Derived>(id));
            else handle[o.a] = subject->subscribe(static_cast<Observer<Args...> *>(new Derived(id)));
            m.obs.push_back(MObs{id}); m.slot[o.a] = MSlot{'V', id};
            if ((int)m.alive.size() <= id) m.alive.resize(id + 1, false);
            m.alive[id] = true;
            break;
        }
        case UN_H: case UN_S: {
            int id = m.slot[o.a].obs;
            if (o.kind == UN_H) handle[o.a].unsubscribe(); else subject->unsubscribe(handle[o.a]);
            m.obs.erase(std::remove_if(m.obs.begin(), m.obs.end(), [&](const MObs &x) { return x.id == id; }), m.obs.end());
            m.alive[id] = false; m.slot[o.a] = MSlot{'D', -1};
            break;
        }
        case UN_S_BAD: {
            bool threw = false;
            try { if (o.a < NSLOT) subject->unsubscribe(handle[o.a]); else subject->unsubscribe(foreign_handle); }
            catch (const std::invalid_argument &) { threw = true; }
            if (check && !threw) bad("model:no-exception", o.a < NSLOT ? "Subject::unsubscribe accepted a stale or empty handle without throwing std::invalid_argument" : "Subject::unsubscribe accepted a handle of another Subject without throwing std::invalid_argument");
            if (check && o.a == NSLOT && !foreign_handle.isValid()) bad("model:foreign-handle-damaged", "a rejected foreign handle is no longer valid for its own Subject");
            break;
        }
        case MUTE: handle[o.a].mute(); mobs(m.slot[o.a].obs)->muted = true; break;
        case UNMUTE: handle[o.a].unmute(); mobs(m.slot[o.a].obs)->muted = false; break;
        case INVAL: handle[o.a].getObserver()->invalidate(); mobs(m.slot[o.a].obs)->valid = false; break;
        case MVA: handle[o.a] = std::move(handle[o.b]); std::swap(m.slot[o.a], m.slot[o.b]); break;      // documented as a swap
        case MVC: { Sub t(std::move(handle[o.a])); if (check && handle[o.a].isValid()) bad("model:moved-from-valid", "moved-from handle still valid"); handle[o.a] = std::move(t); break; }
        case NOTIFY: {
            g_calls.clear();
            std::string args = S::notify(*subject, o.a);
            std::vector<Call> want;
            for (auto &ob : m.obs) if (ob.valid && !ob.muted) want.push_back(Call{ob.id, args});
            if (check) {
                bool same = want.size() == g_calls.size();
                for (size_t i = 0; same && i < want.size(); i++) same = want[i].obs == g_calls[i].obs && want[i].args == g_calls[i].args;
                if (!same) {
                    std::string a, b; for (auto &c : g_calls) a += std::to_string(c.obs) + "(" + c.args + ") "; for (auto &c : want) b += std::to_string(c.obs) + "(" + c.args + ") ";
                    bad("model:delivery", "notify invoked [" + a + "], expected exactly the subscribed, valid, unmuted observers in subscription order with the passed values [" + b + "]");
                }
            }
            // invalid observers are removed by the subject right after their turn
            for (auto &ob : m.obs) if (!ob.valid) { m.alive[ob.id] = false; for (auto &sl : m.slot) if (sl.obs == ob.id) sl.st = 'S'; }
            m.obs.erase(std::remove_if(m.obs.begin(), m.obs.end(), [](const MObs &x) { return !x.valid; }), m.obs.end());
            break;
        }
        }
    }

    void check_all() {
        for (int i = 0; i < NSLOT; i++) {
            bool v = handle[i].isValid();
            bool open_question = m.slot[i].st == 'V' && !mobs(m.slot[i].obs)->valid;     // invalidated, not yet removed: the property leaves isValid() open
            if (!open_question && v != (m.slot[i].st == 'V')) bad("model:handle-valid", fmt("handle in slot %d reports isValid() == %d, expected %d", i, v, m.slot[i].st == 'V'));
            if (m.slot[i].st == 'V' && v) {
                MObs *o = mobs(m.slot[i].obs);
                if (handle[i].isMuted() != o->muted) bad("model:handle-muted", fmt("handle in slot %d reports isMuted() == %d, expected %d", i, handle[i].isMuted(), o->muted));
                if (handle[i].getSubject() != subject.get()) bad("model:handle-subject", "valid handle does not refer to its subject");
                if (!subject->isSubscriptionValid(handle[i])) bad("model:handle-valid", "Subject::isSubscriptionValid false for a live subscription");
            }
            if (m.slot[i].st == 'D' && (handle[i].getSubject() != nullptr || handle[i].getObserver() != nullptr || handle[i].getId() != InvalidSubscriptionId)) bad("model:handle-cleared", fmt("unsubscribed handle in slot %d was not cleared", i));
        }
        if (subject->hasSubscriptions() != !m.obs.empty()) bad("model:has-subscriptions", fmt("hasSubscriptions() == %d with %zu live observers", subject->hasSubscriptions(), m.obs.size()));
        for (size_t id = 0; id < m.alive.size(); id++) {
            int live = id < g_tokens.size() ? g_tokens[id] : 0;
            if (m.alive[id] && live <= 0) bad("lifetime:observer-destroyed-early", fmt("observer %zu is still subscribed but its object has been destroyed", id));
            if (!m.alive[id] && live != 0) bad("lifetime:observer-not-destroyed", fmt("observer %zu was removed from the subject but its object is still alive (%d copies)", id, live));
        }
    }

    // read from the implementation's own fields; if a refactoring renames them the harness still builds and merges on the reference model's state instead (observer list with flags, handle flags)
    template<typename S2, typename H2> static constexpr bool known_layout_v = requires(S2 &s2, H2 &h2) { s2.m_activeSubscriptions.begin(); s2.m_observers.begin(); s2.m_observers.front().subscriptionId; s2.m_observers.front().observer->isMuted(); h2.m_id; h2.m_subject; };
    std::string key() {
        if constexpr (!known_layout_v<Subj, Sub>) {
            std::string k = "M:";       // observer ids only through their position in the list (they grow without bound otherwise)
            for (auto &o : m.obs) k += fmt("%c%c,", o.muted ? 'm' : '-', o.valid ? 'v' : 'x');
            k += "|H:";
            for (int i = 0; i < NSLOT; i++) { int pos = -1; for (size_t j = 0; j < m.obs.size(); j++) if (m.obs[j].id == m.slot[i].obs) pos = (int)j; k += fmt("%c%d%c,", m.slot[i].st, m.slot[i].st == 'V' ? pos : -1, subject->isSubscriptionValid(handle[i]) ? 's' : '-'); }
            return k;
        } else return key_private(*subject);
    }
    template<typename S2> std::string key_private(S2 &subj) {
        auto *subject = &subj;
        // implementation state with subscription ids replaced by their rank
        std::vector<SubscriptionId> ids(subject->m_activeSubscriptions.begin(), subject->m_activeSubscriptions.end());
        auto rank = [&](SubscriptionId id) { for (size_t i = 0; i < ids.size(); i++) if (ids[i] == id) return (int)i; return -1; };
        std::string k = "L:";
        for (auto &d : subject->m_observers) k += fmt("%d%c%c,", rank(d.subscriptionId), d.observer->isMuted() ? 'm' : '-', d.observer->isValid() ? 'v' : 'x');
        k += "|H:";
        for (int i = 0; i < NSLOT; i++) k += fmt("%d%c,", rank(handle[i].m_id), handle[i].m_subject == nullptr ? '0' : handle[i].m_subject == subject ? 's' : 'f');
        return k;
    }

    std::string step(const std::vector<Op> &h, const Op *o, bool &ok_pre) {
        g_tokens.clear(); g_calls.clear();
        std::string k;
        {
            subject = std::make_unique<Subj>(); foreign = std::make_unique<Subj>();
            for (auto &hd : handle) hd = Sub();
            m = Model();
            { Token ft(1000); foreign_handle = foreign->subscribe([ft](Args...) {}); }
            for (auto &p : h) apply(p, false);
            ok_pre = !o || pre(*o);
            if (o && ok_pre) apply(*o, true);
            if (ok_pre) { check_all(); k = key(); }
            subject.reset();
            for (size_t id = 0; id < m.alive.size(); id++) if (g_tokens[id] != 0) bad("lifetime:observer-leak", fmt("observer %zu is still alive after its Subject was destroyed (%d copies)", id, g_tokens[id]));
            foreign.reset();
        }
        return k;
    }
};

template<typename... Args> void bfs(int maxobs, uint64_t &states, uint64_t &trans, uint64_t &nontrivial, bool lookahead = false) {
    std::vector<Op> alpha;
    for (int i = 0; i < NSLOT; i++) for (int k : {SUB_L, SUB_SV, SUB_UP, SUB_RAW}) alpha.push_back(Op{k, i, 0});
    for (int i = 0; i < NSLOT; i++) for (int k : {UN_H, UN_S, MUTE, UNMUTE, INVAL, MVC}) alpha.push_back(Op{k, i, 0});
    for (int i = 0; i <= NSLOT; i++) alpha.push_back(Op{UN_S_BAD, i, 0});
    for (int i = 0; i < NSLOT; i++) for (int j = 0; j < NSLOT; j++) if (i != j) alpha.push_back(Op{MVA, i, j});
    for (int v = 0; v < Sig<Args...>::nvalues; v++) alpha.push_back(Op{NOTIFY, v, 0});
    Sys<Args...> sys; sys.maxobs = maxobs;
    std::string prefix = std::string("sig=") + Sig<Args...>::name + " maxobs=" + std::to_string(maxobs) + " :";
    auto hs = [&](const std::vector<Op> &h, const Op *o) { std::string s = prefix; for (auto &p : h) s += " " + op_str(p); if (o) s += " " + op_str(*o); return s; };
    std::set<std::string> seen; std::deque<std::vector<Op>> frontier;
    bool okp; mark(hs({}, nullptr));
    seen.insert(sys.step({}, nullptr, okp)); states++; frontier.push_back({});
    while (!frontier.empty()) {
        if (deadline_passed()) { shm->exhaustive = 0; return; }
        auto h = std::move(frontier.front()); frontier.pop_front();
        for (auto &o : alpha) {
            mark(hs(h, &o));
            std::string k = sys.step(h, &o, okp);
            if (!okp) continue;
            trans++; shm->evaluations++;
            if (o.kind == NOTIFY && !g_calls.empty()) nontrivial++;
            if (seen.insert(k).second) { states++; auto h2 = h; h2.push_back(o); if (states % 211 == 7) sample(hs(h, &o) + "  => state " + k); frontier.push_back(std::move(h2)); }
            else if (lookahead) {
                // the transition led to a state that is already known: whatever this very operation left behind that the key does not show (a cached value, a counter) gets one more
                // operation of every kind to surface - a history of its own, with every oracle on, that is not merged into the search
                auto h2 = h; h2.push_back(o);
                for (auto &o2 : alpha) { bool ok2; mark(hs(h2, &o2)); sys.step(h2, &o2, ok2); if (ok2) { trans++; shm->evaluations++; } }
            }
        }
    }
}

void c05_reentrant_part();
extern bool g_delivery_only;
void explore_c05() {
    int maxobs = thorough() ? 3 : 2;     // live observers at a time (3 handle slots; removed observers make room for new ones)
    uint64_t &states = shm->states, &trans = shm->transitions, &nontrivial = shm->nontrivial;
    bfs<>(3, states, trans, nontrivial, true);
    bfs<int>(maxobs, states, trans, nontrivial, true);
    bfs<const std::string &>(maxobs, states, trans, nontrivial);
    bfs<std::string, int>(3, states, trans, nontrivial);      // by-value class arguments with three observers: what the last one receives must not depend on what happened to the others
    c05_reentrant_part();
    shm->validated = trans;
    sx::detail(fmt("breadth-first search to fixpoint per signature (void with up to 3 live observers; int, const std::string&, (std::string,int) with up to %d), 3 handle slots, ids rank-normalised in the state key; "
                   "plus notify calls made from inside callbacks (1 observer x <= 3 actions, 2 x <= 2, 3 x <= 1 per callback, two rounds): every such call, too, must reach exactly the observers that are subscribed, valid and unmuted when it is made, once each, in order; "
                   "plus 1..%d observers at a time with one of them (first, middle, last) unsubscribed / muted / invalidated / muted and unmuted from outside, or acting from inside its callback, two rounds", maxobs, thorough() ? 70 : 40));
}

void replay_c10(const std::string &hist);
void replay_c05(const std::string &hist) {
    char sig[64]; int maxobs;
    if (hist.compare(0, 10, "reentrant ") == 0) { g_delivery_only = true; replay_c10(hist); return; }
    if (hist.compare(0, 5, "wide ") == 0) { violation("wide:delivery", "see the first report (the history names the configuration: <total> observers, the operation applied to <target>, two notify rounds)", hist); return; }
    if (sscanf(hist.c_str(), "sig=%63s maxobs=%d :", sig, &maxobs) != 2) { violation("replay:parse", "cannot parse " + hist); return; }
    std::vector<Op> h;
    if (!parse_ops(hist.substr(hist.find(':') + 1), h)) { violation("replay:parse", "cannot parse ops in " + hist); return; }
    auto go = [&](auto sys) { sys.maxobs = maxobs; bool okp; if (h.empty()) { sys.step({}, nullptr, okp); return; } Op last = h.back(); std::vector<Op> pre(h.begin(), h.end() - 1); sys.step(pre, &last, okp); };
    std::string s = sig;
    if (s == "void") go(Sys<>{}); else if (s == "int") go(Sys<int>{}); else if (s == "cstr") go(Sys<const std::string &>{}); else go(Sys<std::string, int>{});
}

// ------------------------------------------------------------------ C10: re-entrant callbacks
// Every observer performs a fixed list of actions, in order, each time it is invoked.
// A_UNSUBD: unsubscribe the target only when called from a nested round (nesting depth 1): an observer that is removed while one of its own calls is still on the stack further up
// A_OTHER: notify a SECOND Subject (two observers of its own) from inside the callback: the two Subjects share nothing, so the round in progress must not notice
enum Act { A_NONE, A_SUBNEW, A_UNSUB, A_MUTE, A_UNMUTE, A_INVAL, A_NOTIFY, A_UNSUBD, A_OTHER, NACTS };
const char *aname[] = {"none", "subnew", "unsub", "mute", "unmute", "inval", "notify", "unsubd", "other"};
struct Action { int act, target; };
typedef std::vector<Action> Script;

struct RSys {
    std::unique_ptr<Subject<int>> subject;
    std::unique_ptr<Subject<int>> other; int other_calls = 0, other_notifies = 0; std::vector<Subscription<int>> other_handles;      // the second Subject and its two observers
    void notify_other() {
        if (!other) { other = std::make_unique<Subject<int>>(); for (int k = 0; k < 2; k++) other_handles.push_back(other->subscribe([this](int) { other_calls++; })); }
        other_notifies++; other->notify(7);
    }
    std::vector<Subscription<int>> handles;       // index = observer id
    std::vector<Script> scripts;                  // per observer id (observers added during the run do nothing)
    struct Call { int first, second, round; };    // observer id, nesting depth, serial number of the notify() call that made it
    std::vector<Call> log;                        // in call order
    std::vector<int> round_stack; int round_serial = 0;      // notify() is synchronous: the innermost notify in progress is the caller of a callback
    void do_notify(int v) { round_stack.push_back(++round_serial); subject->notify(v); round_stack.pop_back(); }
    std::vector<char> destroyed;                  // the observer object (its closure) has been destroyed by the Subject
    int depth = 0;
    struct Token { RSys *sys; int id; bool armed = true; Token(RSys *s, int i) : sys(s), id(i) {} Token(const Token &o) : sys(o.sys), id(o.id), armed(o.armed) { const_cast<Token &>(o).armed = false; }
                   ~Token() { if (armed) sys->destroyed[id] = 1; } };

    // what the real callback does; works on copies only (an action may destroy the closure it was called through)
    void on_call(int me, Observer<int>::SelfView *self) {
        log.push_back({me, depth, round_stack.empty() ? 0 : round_stack.back()});
        Script sc = me < (int)scripts.size() ? scripts[me] : Script{};
        for (const Action &a : sc) {
            int t = a.target;
            switch (a.act) {
            case A_SUBNEW: subscribe_new(); break;
            case A_UNSUB: if (handles[t].isValid()) handles[t].unsubscribe(); break;
            case A_UNSUBD: if (depth == 1 && handles[t].isValid()) handles[t].unsubscribe(); break;
            case A_MUTE: if (handles[t].isValid()) handles[t].mute(); break;
            case A_UNMUTE: if (handles[t].isValid()) handles[t].unmute(); break;
            case A_INVAL: if (t == me && self) { if (!destroyed[me]) (*self)->invalidate(); } else if (handles[t].isValid()) handles[t].getObserver()->invalidate(); break;
            case A_NOTIFY: if (depth < 2) { depth++; do_notify(100 + depth); depth--; } break;
            case A_OTHER: notify_other(); break;
            }
        }
    }
    void subscribe_new() {
        int id = (int)handles.size();
        handles.emplace_back(); destroyed.push_back(0);
        RSys *sys = this;
        Token tok(this, id);
        if (id % 2 == 0) handles[id] = subject->subscribe([sys, id, tok](Observer<int>::SelfView self, int) { RSys *s = sys; int me = id; s->on_call(me, &self); });
        else handles[id] = subject->subscribe([sys, id, tok](int) { RSys *s = sys; int me = id; s->on_call(me, nullptr); });
    }
};

// reference simulation of the rounds as the property defines them, run in lockstep with the recorded call log
struct RefSim {
    struct O { bool subscribed = true, muted = false, valid = true; int touched_in = -1; };
    std::vector<O> obs; std::vector<Script> scripts;
    const std::vector<RSys::Call> *log; size_t pos = 0; int depth = 0; int round_serial = 0;
    std::string err;

    void act(int me) {
        Script sc = me < (int)scripts.size() ? scripts[me] : Script{};
        for (const Action &a : sc) {
            int t = a.target;
            switch (a.act) {
            case A_SUBNEW: obs.push_back(O{}); break;
            case A_UNSUB: if (obs[t].subscribed) obs[t].subscribed = false; break;
            case A_UNSUBD: if (depth == 1 && obs[t].subscribed) obs[t].subscribed = false; break;
            case A_MUTE: if (obs[t].subscribed) { obs[t].muted = true; obs[t].touched_in = round_serial; } break;
            case A_UNMUTE: if (obs[t].subscribed) { obs[t].muted = false; obs[t].touched_in = round_serial; } break;
            case A_INVAL: if (obs[t].subscribed) { obs[t].valid = false; obs[t].touched_in = round_serial; } break;
            case A_NOTIFY: if (depth < 2) { depth++; round(); depth--; } break;
            }
            if (!err.empty()) return;
        }
    }
    void round() {
        int my_round = ++round_serial;      // flags touched while this round (or a round nested in it) runs are "don't care" for it
        size_t n = obs.size();              // membership is fixed at entry
        for (size_t i = 0; i < n && err.empty(); i++) {
            if (!obs[i].subscribed) continue;                         // removed before its turn: skipped
            bool expect = !obs[i].muted && obs[i].valid;
            bool dontcare = obs[i].touched_in >= my_round;            // muted/unmuted/invalidated during this round before its turn
            // the harness numbers the notify() calls in execution order and every logged call carries the number of the notify that made it, so consecutive nested rounds cannot be confused
            bool called = pos < log->size() && (*log)[pos].first == (int)i && (*log)[pos].second == depth && (*log)[pos].round == my_round;
            if (called && !obs[i].valid) { err = fmt("observer %zu was invalidated earlier and must never be invoked again, but the implementation invoked it (call #%zu of the log, nesting depth %d)", i, pos, depth); return; }
            if (!dontcare && expect != called) {
                err = fmt("observer %zu (nesting depth %d) %s, but the implementation %s it (call #%zu of the log)", i, depth, expect ? "is subscribed, valid and unmuted and must be invoked" : "must not be invoked", called ? "invoked" : "did not invoke", pos);
                return;
            }
            if (called) { pos++; act((int)i); }
            if (obs[i].subscribed && !obs[i].valid) obs[i].subscribed = false;      // lazily removed after its turn
        }
    }
};

std::string cfg_str(int n, unsigned mutemask, const std::vector<Script> &scripts) {
    std::string s = fmt("reentrant n=%d muted=%u :", n, mutemask);
    for (auto &sc : scripts) { s += " "; if (sc.empty()) s += "none0"; for (size_t i = 0; i < sc.size(); i++) s += fmt("%s%s%d", i ? "+" : "", aname[sc[i].act], sc[i].target); }
    return s;
}

bool g_delivery_only = false;       // the C05 run judges deliveries only (memory safety and observer lifetimes under re-entrancy are C10's)
void run_config(int n, unsigned mutemask, const std::vector<Script> &scripts) {
    RSys sys; sys.subject = std::make_unique<Subject<int>>(); sys.scripts = scripts;
    sys.handles.reserve(4096); sys.destroyed.reserve(4096);
    for (int i = 0; i < n; i++) sys.subscribe_new();
    for (int i = 0; i < n && i < 32; i++) if (mutemask >> i & 1) sys.handles[i].mute();
    sys.do_notify(1);
    sys.do_notify(2);
    RefSim ref; ref.scripts = scripts; ref.obs.resize(n); ref.log = &sys.log;
    for (int i = 0; i < n && i < 32; i++) ref.obs[i].muted = mutemask >> i & 1;
    ref.round(); if (ref.err.empty()) ref.round();
    if (ref.err.empty() && ref.pos != sys.log.size()) ref.err = fmt("the implementation made %zu calls, the rounds as defined by the property explain only the first %zu", sys.log.size(), ref.pos);
    if (ref.err.empty() && sys.other_calls != 2 * sys.other_notifies) ref.err = fmt("a second Subject with two observers was notified %d times from inside callbacks of the first and made %d calls, expected %d", sys.other_notifies, sys.other_calls, 2 * sys.other_notifies);
    if (!ref.err.empty()) {
        std::string l; for (auto &c : sys.log) l += fmt("%d@%d/r%d ", c.first, c.second, c.round);
        violation("reentrant:round-semantics", ref.err + "; call log (observer@depth/notify serial): " + l);
    }
    if (g_delivery_only) { sys.subject.reset(); return; }      // (the observers' tokens write into sys.destroyed: the Subject goes first)
    // consistency afterwards: handles agree with the model, subject still usable
    if (sys.handles.size() >= 4096) violation("harness:too-many-observers", "more than 4096 observers were created; raise the reservation");
    for (size_t i = 0; i < ref.obs.size() && i < sys.handles.size(); i++)
        if (ref.obs[i].valid && sys.handles[i].isValid() != ref.obs[i].subscribed) violation("reentrant:handle-valid", fmt("after the rounds handle %zu reports isValid() == %d, expected %d", i, sys.handles[i].isValid(), ref.obs[i].subscribed));
    for (size_t i = 0; i < ref.obs.size() && i < sys.destroyed.size(); i++)
        if (ref.obs[i].subscribed && sys.destroyed[i]) violation("reentrant:destroyed-while-subscribed", fmt("observer %zu is still subscribed according to the rounds, but its object has been destroyed", i));
    sys.subject.reset();
    for (size_t i = 0; i < sys.destroyed.size(); i++) if (!sys.destroyed[i]) violation("reentrant:leaked-observer", fmt("observer %zu was not destroyed although the Subject is gone", i));
}

std::vector<Action> menu(int n) {
    std::vector<Action> m{{A_SUBNEW, 0}, {A_NOTIFY, 0}, {A_OTHER, 0}};
    for (int t = 0; t < n; t++) for (int a : {A_UNSUB, A_MUTE, A_UNMUTE, A_INVAL, A_UNSUBD}) m.push_back(Action{a, t});
    return m;
}
// every action list of length 0..maxlen over the menu
std::vector<Script> scripts_upto(int n, int maxlen) {
    auto m = menu(n);
    std::vector<Script> out{{}}; size_t from = 0;
    for (int l = 1; l <= maxlen; l++) { size_t to = out.size(); for (size_t i = from; i < to; i++) for (auto &a : m) { Script sc = out[i]; sc.push_back(a); out.push_back(sc); } from = to; }
    return out;
}

void explore_c10() {
    // (observers, actions per callback): more observers with shorter lists, fewer observers with longer lists
    std::vector<std::pair<int, int>> shapes = thorough() ? std::vector<std::pair<int, int>>{{1, 7}, {2, 3}, {3, 2}, {4, 1}} : std::vector<std::pair<int, int>>{{1, 6}, {2, 2}, {3, 1}};
    if (const char *e = getenv("VERIF_C10_SHAPES")) {      // experiments only: "1x4,2x2"
        shapes.clear(); int a, b; const char *q = e;
        while (sscanf(q, "%dx%d", &a, &b) == 2) { shapes.push_back({a, b}); q = strchr(q, ','); if (!q) break; q++; }
    }
    std::vector<std::function<void()>> tasks;
    std::string shape_txt;
    for (auto [n, len] : shapes) {
        shape_txt += fmt("%s%d observers x <=%d actions", shape_txt.empty() ? "" : ", ", n, len);
        auto opts = scripts_upto(n, len);
        size_t parts = opts.size() >= 16 && n > 1 ? 16 : 1;
        for (size_t part = 0; part < parts; part++) tasks.push_back([=] {
            std::vector<size_t> idx(n, 0);
            for (size_t first = part; first < opts.size(); first += parts) {
                idx.assign(n, 0); idx[0] = first;
                for (;;) {
                    std::vector<Script> scripts; for (int i = 0; i < n; i++) scripts.push_back(opts[idx[i]]);
                    bool uses_unmute = false, nontriv = false; for (auto &sc : scripts) for (auto &a : sc) { uses_unmute |= a.act == A_UNMUTE; nontriv = true; }
                    for (unsigned mask = 0; mask < (uses_unmute ? 1u << n : 1u); mask++) {
                        if (deadline_passed()) { shm->exhaustive = 0; return; }
                        mark(cfg_str(n, mask, scripts));
                        run_config(n, mask, scripts);
                        shm->evaluations++; shm->transitions += 2; shm->states++;
                        if (nontriv) shm->nontrivial++;
                        if (shm->evaluations % 150001 == 7) sample(cfg_str(n, mask, scripts));
                    }
                    int i = 1; while (i < n && ++idx[i] == opts.size()) idx[i++] = 0;
                    if (i >= n) break;
                }
            }
        });
    }
    // The same with MANY observers: the active ones (2 observers x <= 2 actions) surrounded by observers that only count their calls.  Whatever an implementation does
    // differently above some size (an inline buffer, a reused overflow vector, a different container) is exercised on both sides of it and while crossing it.
    std::vector<int> totals;
    for (int t = 3; t <= 70; t++) if (thorough() || t <= 10 || (t >= 15 && t <= 19) || (t >= 31 && t <= 35) || (t >= 63 && t <= 67)) totals.push_back(t);
    {
        const int n = 2; auto opts = scripts_upto(n, 2);
        for (int total : totals) for (int pos = 0; pos < 3; pos++) tasks.push_back([=] {
            int pads = total - n, before = pos == 0 ? 0 : pos == 1 ? pads : pads / 2;
            for (size_t a = 0; a < opts.size(); a++) for (size_t b = 0; b < opts.size(); b++) {
                bool reentrant = false; for (auto *sc : {&opts[a], &opts[b]}) for (auto &x : *sc) reentrant |= x.act == A_NOTIFY;
                if (!reentrant && !thorough()) continue;          // without a nested notify the rounds do not overlap
                std::vector<Script> scripts(before);
                for (size_t k : {a, b}) { Script sc = opts[k]; for (auto &x : sc) x.target += before; scripts.push_back(sc); }
                if (deadline_passed()) { shm->exhaustive = 0; return; }
                mark(cfg_str(total, 0, scripts));
                run_config(total, 0, scripts);
                shm->evaluations++; shm->transitions += 2; shm->states++; shm->nontrivial++;
            }
        });
    }
    parallel(tasks);
    shm->validated = shm->evaluations;
    sx::detail(fmt("the 2 observers x <= 2 actions configurations%s again among %d..%d observers in total (the others only count their calls; before, after and around the active ones; totals %s)", thorough() ? "" : " that contain a nested notify", totals.front(), totals.back(), thorough() ? "all" : "3..10, 15..19, 31..35, 63..67"));
    sx::detail("every assignment of an action LIST per callback (actions: subscribe a new observer, nested notify up to depth 2, notify of a second Subject, unsubscribe/mute/unmute/invalidate any target incl. itself; performed in order on every invocation) for the shapes " + shape_txt +
               "; two consecutive rounds each, every initial mute mask where unmute is used; observer objects must be destroyed exactly when they leave; states = configurations, transitions = rounds");
}

// C05: a notify() issued from inside a callback is a notify call like any other.  The enumeration runs in a child of its own so that a crash is attributed to the
// configuration in flight.
void c05_reentrant_part() {
    fflush(stdout); fflush(stderr);
    pid_t pid = fork();
    if (pid == 0) {
        g_delivery_only = true;
        for (auto [n, len] : std::vector<std::pair<int, int>>{{1, 3}, {2, 2}, {3, 1}}) {
            auto opts = scripts_upto(n, len);
            std::vector<size_t> idx(n, 0);
            for (;;) {
                std::vector<Script> scripts; for (int i = 0; i < n; i++) scripts.push_back(opts[idx[i]]);
                bool uses_unmute = false, has_notify = false; for (auto &sc : scripts) for (auto &a : sc) { uses_unmute |= a.act == A_UNMUTE; has_notify |= a.act == A_NOTIFY; }
                (void)has_notify;      // callbacks that only change the subscriptions count as well: an observer a callback has removed must not be invoked in that round either
                for (unsigned mask = 0; mask < (uses_unmute ? 1u << n : 1u); mask++) {
                    if (deadline_passed()) { shm->exhaustive = 0; _exit(0); }
                    mark(cfg_str(n, mask, scripts));
                    run_config(n, mask, scripts);
                    shm->evaluations++; shm->transitions += 2; shm->nontrivial++;
                }
                int i = 0; while (i < n && ++idx[i] == opts.size()) idx[i++] = 0;
                if (i >= n) break;
            }
        }
        // many observers: whatever the implementation does differently above some size is on both sides of it here
        for (int total = 1; total <= (thorough() ? 70 : 40); total++) {
            std::vector<int> spots{0, total / 2, total - 1}; std::sort(spots.begin(), spots.end()); spots.erase(std::unique(spots.begin(), spots.end()), spots.end());
            // (a) operations from outside, then two rounds
            for (int t : spots) for (int op = 0; op < 5; op++) {
                if (deadline_passed()) { shm->exhaustive = 0; _exit(0); }
                std::string hist = fmt("wide total=%d target=%d op=%d", total, t, op); mark(hist);
                RSys sys; sys.subject = std::make_unique<Subject<int>>(); sys.handles.reserve(4096); sys.destroyed.reserve(4096);
                for (int i = 0; i < total; i++) sys.subscribe_new();
                bool gets = false;
                switch (op) { case 0: sys.handles[t].unsubscribe(); break; case 1: sys.handles[t].mute(); break; case 2: sys.handles[t].getObserver()->invalidate(); break;
                              case 3: sys.handles[t].mute(); sys.handles[t].unmute(); gets = true; break; case 4: gets = true; break; }
                sys.do_notify(1); if (op == 4) { sys.subscribe_new(); } sys.do_notify(2);
                std::string want, got;
                for (int r = 1; r <= 2; r++) for (int i = 0; i < total + (op == 4 && r == 2); i++) if (i != t || gets) want += fmt("%d/r%d ", i, r);
                for (auto &c : sys.log) got += fmt("%d/r%d ", c.first, c.round);
                if (want != got) violation("wide:delivery", fmt("%d observers, observer %d %s before the rounds: calls (observer/round) %s, expected %s", total, t, op == 0 ? "unsubscribed" : op == 1 ? "muted" : op == 2 ? "invalidated" : op == 3 ? "muted and unmuted" : "left alone (one more subscribed between the rounds)", got.c_str(), want.c_str()), hist);
                shm->evaluations++; shm->transitions += 2; shm->nontrivial++;
                sys.subject.reset();
            }
            // (b) one acting observer among them
            if (total < 3) continue;
            for (int q : spots) {
                std::vector<Action> m{{A_SUBNEW, 0}, {A_NOTIFY, 0}};
                for (int t : spots) for (int a : {A_UNSUB, A_MUTE, A_INVAL}) m.push_back(Action{a, t});
                std::vector<Script> opts{{}}; for (auto &a : m) opts.push_back({a}); if (total % 8 <= 1 || thorough()) for (auto &a : m) for (auto &b : m) opts.push_back({a, b});
                for (auto &sc : opts) {
                    if (deadline_passed()) { shm->exhaustive = 0; _exit(0); }
                    std::vector<Script> scripts(q); scripts.push_back(sc);
                    mark(cfg_str(total, 0, scripts));
                    run_config(total, 0, scripts);
                    shm->evaluations++; shm->transitions += 2; shm->nontrivial++;
                }
            }
        }
        _exit(0);
    }
    int st; waitpid(pid, &st, 0);
    // a crash in the middle of a legal history (a notify made from a callback) leaves nothing of "every observer exactly once" either
    if (!(WIFEXITED(st) && WEXITSTATUS(st) == 0))
        violation("crash", WIFSIGNALED(st) ? fmt("crash: killed by signal %d during a notify() made from inside a callback (see the replay for the sanitizer report)", WTERMSIG(st)) : fmt("crash: exit status %d", WEXITSTATUS(st)), shm->marker);
}

void replay_c10(const std::string &hist) {
    int n; unsigned mask;
    if (sscanf(hist.c_str(), "reentrant n=%d muted=%u :", &n, &mask) != 2) { violation("replay:parse", "cannot parse " + hist); return; }
    std::stringstream ss(hist.substr(hist.find(':') + 1)); std::string tok; std::vector<Script> scripts;
    while (ss >> tok) {
        Script sc; std::stringstream ts(tok); std::string one;
        while (std::getline(ts, one, '+')) for (int a = 1; a < NACTS; a++) { size_t l = strlen(aname[a]); if (one.compare(0, l, aname[a]) == 0 && one.size() > l && isdigit((unsigned char)one[l])) sc.push_back(Action{a, atoi(one.c_str() + l)}); }
        scripts.push_back(sc);
    }
    run_config(n, mask, scripts);
}
}  // namespace

int main(int argc, char **argv) {
    bool c10 = false;
    for (int i = 1; i + 1 < argc; i++) if (std::string(argv[i]) == "--property" && std::string(argv[i + 1]) == "C10") c10 = true;
    Harness h;
    if (c10) {
        h.name = "subject-reentrant";
        h.rule = "complete enumeration: for n = 1..N observers on one Subject<int>, every assignment of an action list (up to the stated length) per callback from the menu and every relevant initial mute mask; two notify rounds each; the recorded call log is replayed against a "
                 "reference simulation of the rounds as the property defines them (membership fixed at entry, removed-before-turn skipped, added-during-round first called next round); whether an observer muted/unmuted/invalidated DURING a round "
                 "before its turn is still called in that round is left open, as in the property; everything runs under AddressSanitizer; non-trivial = some callback does something";
        h.assumptions = {"callbacks do not touch their own closure after an action that may destroy it", "handles are only used while valid (mute/unsubscribe through a stale handle is outside the property)", "nesting of notify bounded by 2, observers bounded as stated"};
        h.explore = explore_c10; h.replay = replay_c10;
    } else {
        h.name = "subject";
        h.rule = "explicit-state search: a state is an operation history replayed on a fresh real Subject with 3 handle slots, keyed by the implementation's observer list (ids replaced by their rank, mute/valid flags) and handle fields; breadth-first to fixpoint "
                 "with every operation (subscribe by lambda / SelfView lambda / unique_ptr / raw pointer, unsubscribe through handle or subject, unsubscribe of stale, empty and foreign handles, mute, unmute, invalidate, handle move-assign and move-construct, "
                 "notify with each value) applied in every state, for four argument signatures; non-trivial = a notify that invoked somebody";
        h.assumptions = {"subscription ids influence behaviour only through equality and order (rank normalisation of the state key)", "handles are only dereferenced while valid; Subject::unsubscribe is the only operation applied to stale/foreign handles",
                         "isValid() of a handle whose observer was invalidated but not yet removed is not constrained"};
        h.explore = explore_c05; h.replay = replay_c05;
    }
    return run_main(argc, argv, h);
}
