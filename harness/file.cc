// E2 harness for tulz::File: C17 (round-trips bytes exactly, sizes and errors reported truthfully) on a tmpfs scratch directory.
#include <tulz/File.h>
#include <tulz/Exception.h>

#include <filesystem>
#include <set>
#include <string>
#include <vector>

#include "seqx.h"

using namespace sx;
using tulz::File;
namespace fs = std::filesystem;

namespace {
std::string g_dir;
typedef std::string Bytes;
const unsigned char ALPHA[] = {0x00, 0xFF, 0x0D, 0x0A, 'a', 0x1A};

std::string hex(const Bytes &b) { std::string s; char t[4]; for (unsigned char c : b) { snprintf(t, sizeof t, "%02x", c); s += t; } return s.empty() ? "-" : s; }
Bytes unhex(const std::string &h) { Bytes b; if (h == "-") return b; for (size_t i = 0; i + 1 < h.size(); i += 2) b += (char)strtol(h.substr(i, 2).c_str(), nullptr, 16); return b; }

Bytes slurp(const std::string &p) { std::ifstream f(p, std::ios::binary); std::stringstream ss; ss << f.rdbuf(); return ss.str(); }
void spit(const std::string &p, const Bytes &b) { std::ofstream f(p, std::ios::binary | std::ios::trunc); f.write(b.data(), (std::streamsize)b.size()); }

const File::Mode WMODES[] = {File::Mode::Write, File::Mode::WriteText, File::Mode::Append, File::Mode::AppendText};
const char *WMODE_NAMES[] = {"Write", "WriteText", "Append", "AppendText"};

void bad(const std::string &sig, const std::string &msg) { violation(sig, msg); }
// every case must give back the descriptors it opened (a File that is re-opened, closed or destroyed releases its stream)
struct FdGuard { int before = open_fds(); ~FdGuard() { int leaked = open_fds() - before; if (leaked > 0) bad("file:descriptor-leak", fmt("%d file descriptor(s) are still open after all File objects of this case were closed or destroyed", leaked)); } };

// ---- round trip: write `content` in the pieces given by `mask` (bit i set = cut after byte i), through API `api`, then read back every way
void round_trip(const Bytes &content, unsigned mask, int wmode, bool pre, int api, const std::string &path) {
    if (pre) spit(path, "xy"); else fs::remove(path);
    {
        File f(path, WMODES[wmode]);
        if (!f.isOpen()) { bad("rt:open", "file not open after construction in a write mode"); return; }
        if (f.getMode() != WMODES[wmode]) bad("rt:mode", "getMode() differs from the mode passed to open");
        size_t start = 0;
        for (size_t i = 0; i <= content.size(); i++) {
            bool cut = i == content.size() || (i > 0 && (mask >> (i - 1) & 1));
            if (!cut || i == 0) continue;
            Bytes piece = content.substr(start, i - start);
            size_t wrote;
            if (api == 0) wrote = f.write(piece.data(), piece.size());
            else if (api == 1) { tulz::Array<tulz::byte> a(piece.size()); if (!piece.empty()) memcpy(a.array(), piece.data(), piece.size()); wrote = f.write(a); }
            else wrote = f.write(piece);
            if (wrote != piece.size()) bad("rt:write-count", fmt("write of %zu bytes returned %zu", piece.size(), wrote));
            shm->transitions++;
            start = i;
        }
        if (content.empty()) { size_t w = f.write(std::string()); if (w != 0) bad("rt:write-count", "writing an empty string returned non-zero"); }
        f.flush();
        f.close();
        if (f.isOpen()) bad("rt:close", "isOpen() true after close()");
    }
    bool append = wmode >= 2;
    Bytes want = (pre && append ? Bytes("xy") : Bytes()) + content;
    Bytes disk = slurp(path);
    if (disk != want) { bad("rt:disk-content", fmt("after writing %s in mode %s the file holds %s, expected %s", hex(content).c_str(), WMODE_NAMES[wmode], hex(disk).c_str(), hex(want).c_str())); return; }
    if (fs::file_size(path) != want.size()) bad("rt:disk-size", "file size on disk differs from the number of bytes written");
    // read back
    for (File::Mode rm : {File::Mode::Read, File::Mode::ReadText}) {
        const char *rn = rm == File::Mode::Read ? "Read" : "ReadText";
        { File f(path, rm); auto a = f.read(); shm->transitions++;
          if (Bytes((const char *)a.array(), a.size()) != want) bad("rt:read", fmt("read() in mode %s returned %s, file holds %s", rn, hex(Bytes((const char *)a.array(), a.size())).c_str(), hex(want).c_str())); }
        { File f(path, rm); std::string s = f.readStr(); shm->transitions++;
          if (s != want) bad("rt:readStr", fmt("readStr() in mode %s returned %s, file holds %s", rn, hex(s).c_str(), hex(want).c_str())); }
        { File f(path, rm);
          if (f.size() != want.size()) bad("rt:size", fmt("size() == %zu in mode %s, file has %zu bytes", f.size(), rn, want.size()));
          if (f.tell() != 0) bad("rt:size-moved", "size() on a freshly opened file moved the position");
          shm->transitions++; }
        for (size_t chunk : {(size_t)1, (size_t)2, (size_t)3}) {
            File f(path, rm); Bytes got; char buf[8];
            for (;;) { size_t n = f.read(buf, 1, chunk); shm->transitions++; got.append(buf, n); if (n < chunk) break; if (got.size() > want.size() + 8) break; }
            if (got != want) bad("rt:read-chunks", fmt("read(buf,1,%zu) in a loop (mode %s) returned %s, file holds %s", chunk, rn, hex(got).c_str(), hex(want).c_str()));
        }
    }
}

// ---- position model
struct PosModel { Bytes data; long pos = 0; };
enum SOp { S_SEEK, S_TELL, S_SIZE, S_READN, S_READALL };
struct SeekOp { int kind, a, b; };
std::string sop_str(const SeekOp &o) {
    switch (o.kind) { case S_SEEK: return fmt("seek(%d,%s)", o.a, o.b == 0 ? "Start" : o.b == 1 ? "Current" : "End"); case S_TELL: return "tell"; case S_SIZE: return "size"; case S_READN: return fmt("readn%d", o.a); default: return "readall"; }
}
std::vector<SeekOp> seek_alphabet() {
    std::vector<SeekOp> a;
    for (int org = 0; org < 3; org++) for (int off : {-1, 0, 1, 2}) a.push_back(SeekOp{S_SEEK, off, org});
    a.push_back(SeekOp{S_TELL, 0, 0}); a.push_back(SeekOp{S_SIZE, 0, 0});
    for (int n : {0, 1, 2}) a.push_back(SeekOp{S_READN, n, 0});
    a.push_back(SeekOp{S_READALL, 0, 0});
    return a;
}

void seek_sequence(const Bytes &content, File::Mode rm, const std::vector<SeekOp> &ops, const std::string &path, std::set<std::pair<long, int>> *states) {
    File f(path, rm);
    PosModel m; m.data = content;
    int step = 0;
    for (auto &o : ops) {
        step++; shm->transitions++;
        switch (o.kind) {
        case S_SEEK: {
            long base = o.b == 0 ? 0 : o.b == 1 ? m.pos : (long)m.data.size();
            long target = base + o.a;
            int rc = f.seek(o.a, o.b == 0 ? File::Origin::Start : o.b == 1 ? File::Origin::Current : File::Origin::End);
            if (target < 0) { if (rc == 0) bad("seek:negative-accepted", fmt("step %d: %s to a negative position succeeded", step, sop_str(o).c_str())); }
            else { if (rc != 0) bad("seek:failed", fmt("step %d: %s failed (rc %d)", step, sop_str(o).c_str(), rc)); m.pos = target; }
            break;
        }
        case S_TELL: { long t = f.tell(); if (t != m.pos) bad("seek:tell", fmt("step %d: tell() == %ld, expected %ld", step, t, m.pos)); break; }
        case S_SIZE: { size_t s = f.size(); long t = f.tell();
            if (s != m.data.size()) bad("seek:size", fmt("step %d: size() == %zu, file has %zu bytes", step, s, m.data.size()));
            if (t != m.pos) bad("seek:size-moved", fmt("step %d: size() moved the position from %ld to %ld", step, m.pos, t)); break; }
        case S_READN: { char buf[4] = {0}; size_t n = f.read(buf, 1, (size_t)o.a);
            size_t avail = m.pos < (long)m.data.size() ? m.data.size() - (size_t)m.pos : 0, wantn = std::min<size_t>(avail, (size_t)o.a);
            if (n != wantn || (wantn && Bytes(buf, n) != m.data.substr((size_t)m.pos, wantn))) bad("seek:read", fmt("step %d: read(buf,1,%d) at position %ld returned %zu bytes %s, expected %zu bytes %s", step, o.a, m.pos, n, hex(Bytes(buf, n)).c_str(), wantn, hex(m.data.substr(std::min<size_t>(m.pos, m.data.size()), wantn)).c_str()));
            m.pos += (long)wantn; break; }
        case S_READALL: { auto a = f.read(); if (Bytes((const char *)a.array(), a.size()) != m.data) bad("seek:readall", fmt("step %d: read() returned %s, file holds %s", step, hex(Bytes((const char *)a.array(), a.size())).c_str(), hex(m.data).c_str())); m.pos = (long)m.data.size(); break; }
        }
        if (states) states->insert({m.pos, o.kind});
    }
}


// ---- (e) sessions: every sequence of calls on ONE File object over two paths, including re-open without close.
// Reference: a map path -> bytes on which a write takes effect when it is issued (with a single stream per file, stdio buffering must be
// invisible), open() closes the stream held before it opens the new one, "w" truncates at open, "a" writes at the end whatever the position is.
enum EOp { E_OPEN, E_WRITE, E_FLUSH, E_CLOSE, E_SEEK0, E_SEEK1, E_SIZE, E_TELL, E_READALL, E_READ1 };
struct SessOp { int kind, a, b; };       // E_OPEN: a = path index, b = mode index (ALLMODES); E_WRITE: a = piece index
const File::Mode ALLMODES[] = {File::Mode::Read, File::Mode::ReadText, File::Mode::Write, File::Mode::WriteText, File::Mode::Append, File::Mode::AppendText};
const char *ALLMODE_NAMES[] = {"Read", "ReadText", "Write", "WriteText", "Append", "AppendText"};
const char *PIECES[] = {"ab", "\n"};
std::string eop_str(const SessOp &o) {
    switch (o.kind) {
    case E_OPEN: return fmt("open%c:%s", 'P' + o.a, ALLMODE_NAMES[o.b]); case E_WRITE: return fmt("write%d", o.a); case E_FLUSH: return "flush"; case E_CLOSE: return "close";
    case E_SEEK0: return "seek0"; case E_SEEK1: return "seek1"; case E_SIZE: return "size"; case E_TELL: return "tell"; case E_READALL: return "readall"; default: return "read1";
    }
}
std::vector<SessOp> session_alphabet() {
    std::vector<SessOp> a;
    for (int m : {2, 4, 0, 3, 5, 1}) for (int p = 0; p < 2; p++) a.push_back(SessOp{E_OPEN, p, m});
    for (int i = 0; i < 2; i++) a.push_back(SessOp{E_WRITE, i, 0});
    for (int k : {E_FLUSH, E_CLOSE, E_SEEK0, E_SEEK1, E_SIZE, E_TELL, E_READALL, E_READ1}) a.push_back(SessOp{k, 0, 0});
    return a;
}
struct SessModel {
    bool exists[2] = {false, false}; Bytes data[2];
    bool open = false; int path = 0, mode = 0; long pos = 0; bool pos_known = true;     // pos of an append stream is unspecified until the first write or seek
    bool reading() const { return mode < 2; } bool appending() const { return mode >= 4; }
};
// returns -1, or the index of the first op whose precondition does not hold (the history is not part of the space)
int session(const std::vector<SessOp> &ops, const std::string &dir, int initial, std::set<std::string> *states) {
    std::string paths[2] = {dir + "/P", dir + "/Q"};
    SessModel m;
    for (int i = 0; i < 2; i++) { fs::remove(paths[i]); if (initial >> i & 1) { spit(paths[i], i ? "Q\n" : "xyz"); m.exists[i] = true; m.data[i] = i ? "Q\n" : "xyz"; } }
    int step = 0; int invalid = -1;
    {
        File f;
        for (auto &o : ops) {
            step++;
            std::string w = fmt("step %d (%s)", step, eop_str(o).c_str());
            if (o.kind != E_OPEN && !m.open) { invalid = step - 1; break; }
            if ((o.kind == E_WRITE || o.kind == E_FLUSH) && m.reading()) { invalid = step - 1; break; }
            if ((o.kind == E_READALL || o.kind == E_READ1) && !m.reading()) { invalid = step - 1; break; }
            shm->transitions++;
            switch (o.kind) {
            case E_OPEN: {
                bool rd = o.b < 2, threw = false; int type = -1;
                try { f.open(tulz::Path(paths[o.a]), ALLMODES[o.b]); } catch (const tulz::Exception &e) { threw = true; type = e.type; }
                if (rd && !m.exists[o.a]) {
                    if (!threw || type != tulz::Path::NotFound) bad("sess:not-found", w + ": opening a missing file for reading did not throw NotFound");
                    if (fs::exists(paths[o.a])) bad("sess:created", w + ": a failed open for reading created the file");
                    if (f.isOpen() != m.open) bad("sess:open-state", w + ": a failed open changed isOpen()");
                    break;
                }
                if (threw) { bad("sess:open-threw", w + ": open threw although the file can be opened"); break; }
                m.open = true; m.path = o.a; m.mode = o.b; m.pos = 0; m.pos_known = !m.appending();
                if (o.b == 2 || o.b == 3) { m.data[o.a].clear(); m.exists[o.a] = true; }
                if (o.b >= 4) m.exists[o.a] = true;
                if (!f.isOpen()) bad("sess:open-state", w + ": isOpen() false after a successful open");
                if (f.getMode() != ALLMODES[o.b]) bad("sess:mode", w + ": getMode() differs from the mode passed to open");
                break;
            }
            case E_WRITE: {
                Bytes piece = PIECES[o.a]; size_t n = f.write(piece);
                if (n != piece.size()) bad("sess:write-count", w + fmt(": write of %zu bytes returned %zu", piece.size(), n));
                Bytes &d = m.data[m.path];
                if (m.appending()) { d += piece; m.pos = (long)d.size(); m.pos_known = true; }
                else { if ((size_t)m.pos > d.size()) d.resize((size_t)m.pos, '\0'); d.replace((size_t)m.pos, std::min(piece.size(), d.size() - (size_t)m.pos), piece); m.pos += (long)piece.size(); }
                break;
            }
            case E_FLUSH: if (f.flush() != 0) bad("sess:flush", w + ": flush() failed"); break;
            case E_CLOSE: f.close(); m.open = false; if (f.isOpen()) bad("sess:open-state", w + ": isOpen() true after close()"); break;
            case E_SEEK0: case E_SEEK1: { long t = o.kind == E_SEEK0 ? 0 : 1; if (f.seek(t, File::Origin::Start) != 0) bad("sess:seek", w + ": seek failed"); m.pos = t; m.pos_known = true; break; }
            case E_SIZE: {
                size_t sz = f.size();
                if (sz != m.data[m.path].size()) bad("sess:size", w + fmt(": size() == %zu, the file has %zu bytes (mode %s)", sz, m.data[m.path].size(), ALLMODE_NAMES[m.mode]));
                if (m.pos_known && f.tell() != m.pos) bad("sess:size-moved", w + fmt(": size() moved the position from %ld to %ld", m.pos, f.tell()));
                break;
            }
            case E_TELL: if (m.pos_known) { long t = f.tell(); if (t != m.pos) bad("sess:tell", w + fmt(": tell() == %ld, expected %ld (mode %s)", t, m.pos, ALLMODE_NAMES[m.mode])); } break;
            case E_READALL: { std::string got = f.readStr(); if (got != m.data[m.path]) bad("sess:read", w + fmt(": readStr() returned %s, the file holds %s", hex(got).c_str(), hex(m.data[m.path]).c_str())); m.pos = (long)m.data[m.path].size(); break; }
            case E_READ1: { char c = 0; size_t n = f.read(&c, 1, 1); const Bytes &d = m.data[m.path]; size_t wantn = (size_t)m.pos < d.size() ? 1 : 0;
                if (n != wantn || (wantn && c != d[(size_t)m.pos])) bad("sess:read1", w + fmt(": read(buf,1,1) at position %ld returned %zu byte(s) %02x", m.pos, n, (unsigned char)c)); m.pos += (long)wantn; break; }
            }
            if (states) states->insert(fmt("%d%d%d|%ld|", (int)m.open, m.path, m.mode, m.pos) + hex(m.data[0]) + "|" + hex(m.data[1]));
        }
        // the File object is destroyed here: whatever it still holds must reach the disk
    }
    if (invalid >= 0) return invalid;
    for (int i = 0; i < 2; i++) {
        bool ex = fs::exists(paths[i]);
        if (ex != m.exists[i]) bad("sess:disk-exists", fmt("after the session file %c %s, expected %s", 'P' + i, ex ? "exists" : "is missing", m.exists[i] ? "to exist" : "no file"));
        else if (ex && slurp(paths[i]) != m.data[i]) bad("sess:disk-content", fmt("after the session file %c holds %s, expected %s (every write takes effect in call order; Write truncates when it opens; Append adds at the end)", 'P' + i, hex(slurp(paths[i])).c_str(), hex(m.data[i]).c_str()));
    }
    return -1;
}
std::string sess_name(int initial, const std::vector<SessOp> &ops) { std::string s = fmt("session initial=%d ops=", initial); for (auto &o : ops) s += " " + eop_str(o); return s; }

Bytes pattern(size_t n) { Bytes b(n, 0); for (size_t i = 0; i < n; i++) b[i] = (char)((i * 131 + (i >> 8) * 7 + 13) & 0xff); return b; }

void large(size_t size, size_t cut, const std::string &path) {
    Bytes content = pattern(size);
    fs::remove(path);
    { File f(path, File::Mode::Write); size_t w1 = f.write(content.data(), cut), w2 = f.write(content.data() + cut, size - cut); if (w1 + w2 != size) bad("large:write-count", "short write"); shm->transitions += 2; }
    if (slurp(path) != content) { bad("large:disk-content", fmt("file of %zu bytes written in pieces %zu+%zu differs on disk", size, cut, size - cut)); return; }
    for (File::Mode rm : {File::Mode::Read, File::Mode::ReadText}) {
        File f(path, rm);
        if (f.size() != size) bad("large:size", fmt("size() == %zu for a file of %zu bytes", f.size(), size));
        auto a = f.read(); shm->transitions++;
        if (a.size() != size || memcmp(a.array(), content.data(), size) != 0) bad("large:read", fmt("read() of a %zu byte file returned %zu bytes or different contents", size, a.size()));
    }
    { File f(path, File::Mode::Append); f.write(std::string("Z")); }
    if (fs::file_size(path) != size + 1) bad("large:append", "append to a large file did not add exactly one byte at the end");
}

void errors(const std::string &dir) {
    std::string missing = dir + "/does-not-exist", sub = dir + "/a-directory";
    fs::create_directory(sub);
    for (File::Mode rm : {File::Mode::Read, File::Mode::ReadText}) {
        bool ok = false;
        try { File f(missing, rm); } catch (const tulz::Exception &e) { ok = e.type == tulz::Path::NotFound; } catch (...) {}
        if (!ok) bad("err:not-found", "opening a missing file for reading did not throw tulz::Exception with type NotFound");
        if (fs::exists(missing)) bad("err:created", "a failed open for reading created the file");
        shm->transitions++;
    }
    for (File::Mode m : {File::Mode::Read, File::Mode::ReadText, File::Mode::Write, File::Mode::WriteText, File::Mode::Append, File::Mode::AppendText}) {
        bool ok = false;
        try { File f(sub, m); } catch (const tulz::Exception &e) { ok = e.type == tulz::Path::NotFile; } catch (...) {}
        if (!ok) bad("err:not-file", "opening a directory did not throw tulz::Exception with type NotFile");
        shm->transitions++;
    }
    { File f; if (f.isOpen() || f.getMode() != File::Mode::None) bad("err:default", "default-constructed File reports open"); }
    { std::string p = dir + "/reopen"; spit(p, "abc"); File f(p, File::Mode::Read); f.open(tulz::Path(p), File::Mode::Read); if (f.readStr() != "abc") bad("err:reopen", "re-opening an open File lost the content"); }
}

std::string case_rt(const Bytes &c, unsigned mask, int wmode, bool pre, int api) { return fmt("rt content=%s mask=%u wmode=%d pre=%d api=%d", hex(c).c_str(), mask, wmode, (int)pre, api); }

void for_all_strings(int maxlen, const std::function<void(const Bytes &)> &fn) {
    for (int len = 0; len <= maxlen; len++) {
        std::vector<int> idx(len, 0);
        for (;;) {
            Bytes b; for (int i = 0; i < len; i++) b += (char)ALPHA[idx[i]];
            fn(b);
            int i = 0; while (i < len && ++idx[i] == 6) idx[i++] = 0;
            if (i == len) break;
        }
    }
}

void explore() {
    int maxlen = thorough() ? 5 : 4;
    std::string root = fmt("/dev/shm/tulz-verif-file-%d", (int)getpid());
    fs::remove_all(root); fs::create_directories(root);
    std::vector<std::function<void()>> tasks;
    // (a) every byte string x every split, mode Write onto nothing, raw API; every byte string x one split for the other mode/pre/API combinations
    for (int first = 0; first < 6; first++) tasks.push_back([=] {
        std::string dir = root + fmt("/a%d", first); fs::create_directories(dir); std::string path = dir + "/f";
        for_all_strings(maxlen, [&](const Bytes &b) {
            if (b.empty() ? first != 0 : (unsigned char)b[0] != ALPHA[first]) return;
            if (deadline_passed()) { shm->exhaustive = 0; return; }
            unsigned nmask = b.size() > 1 ? 1u << (b.size() - 1) : 1;
            for (unsigned mask = 0; mask < nmask; mask++) { mark(case_rt(b, mask, 0, false, 0)); FdGuard fdg; round_trip(b, mask, 0, false, 0, path); shm->evaluations++; shm->nontrivial += !b.empty(); shm->states++; }
            for (int wmode = 0; wmode < 4; wmode++) for (int pre = 0; pre < 2; pre++) for (int api = 0; api < 3; api++) {
                if (wmode == 0 && !pre && api == 0) continue;
                unsigned mask = (unsigned)(b.size() * 2654435761u) & (nmask - 1);
                mark(case_rt(b, mask, wmode, pre, api)); FdGuard fdg; round_trip(b, mask, wmode, pre, api, path); shm->evaluations++; shm->nontrivial += !b.empty();
            }
            if (shm->evaluations % 4001 < 24 && shm->nsamples < 2) sample(case_rt(b, 0, 0, false, 0));
        });
    });
    // (b) large files, cut at and around buffer boundaries
    tasks.push_back([=] {
        std::string dir = root + "/large"; fs::create_directories(dir); std::string path = dir + "/f";
        for (size_t size : {(size_t)4095, (size_t)4096, (size_t)4097, (size_t)65537, (size_t)(1 << 20) + 3})
            for (size_t cut : {(size_t)0, (size_t)1, (size_t)4095, (size_t)4096, (size_t)4097, size / 2, size - 1, size}) {
                if (cut > size) continue;
                mark(fmt("large size=%zu cut=%zu", size, cut)); large(size, cut, path); shm->evaluations++; shm->nontrivial++; shm->states++;
            }
        sample("large size=1048579 cut=4096");
        mark("errors"); { FdGuard fdg; errors(dir); } shm->evaluations++;
    });
    // (c) every sequence of seek/tell/size/read calls up to the depth bound on a 3-byte file, both read modes
    int depth = thorough() ? 4 : 3;
    auto alpha = seek_alphabet();
    for (int firstop = 0; firstop < (int)alpha.size(); firstop++) tasks.push_back([=] {
        std::string dir = root + fmt("/s%d", firstop); fs::create_directories(dir); std::string path = dir + "/f";
        Bytes content("\xff\x00\x0a", 3); spit(path, content);
        std::set<std::pair<long, int>> states;
        std::vector<int> idx(depth, 0);
        for (int len = 1; len <= depth; len++) {
            std::vector<int> ix(len, 0); ix[0] = firstop;
            for (;;) {
                std::vector<SeekOp> ops; std::string name; for (int i = 0; i < len; i++) { ops.push_back(alpha[ix[i]]); name += " " + sop_str(alpha[ix[i]]); }
                for (int rm = 0; rm < 2; rm++) { mark(fmt("seek rm=%d ops=", rm) + name); FdGuard fdg; seek_sequence(content, rm ? File::Mode::ReadText : File::Mode::Read, ops, path, &states); shm->evaluations++; shm->nontrivial++; }
                int i = 1; while (i < len && ++ix[i] == (int)alpha.size()) ix[i++] = 0;
                if (i >= len) break;
            }
        }
        shm->states += states.size();
        if (firstop == 5) sample("seek rm=0 ops= seek(-1,Current) readn2 size");
    });
    // (e) every session of <= sdepth calls on one File object over two paths (one existing, one missing; thorough: also both existing)
    int sdepth = thorough() ? 5 : 4;
    auto salpha = session_alphabet();
    for (int initial : thorough() ? std::vector<int>{1, 3} : std::vector<int>{1}) for (int firstop = 0; firstop < 12; firstop++) tasks.push_back([=] {
        std::string dir = root + fmt("/e%d-%d", initial, firstop); fs::create_directories(dir);
        std::set<std::string> states;
        for (int len = 1; len <= sdepth; len++) {
            std::vector<int> ix(len, 0); ix[0] = firstop;
            for (;;) {
                if (deadline_passed()) { shm->exhaustive = 0; break; }
                std::vector<SessOp> ops; for (int i = 0; i < len; i++) ops.push_back(salpha[ix[i]]);
                mark(sess_name(initial, ops));
                int inv; { FdGuard fdg; inv = session(ops, dir, initial, &states); }
                if (inv < 0) { shm->evaluations++; shm->nontrivial++; }
                int i = inv >= 0 ? inv : len - 1;                      // an invalid op: skip every history with this prefix
                for (int j = i + 1; j < len; j++) ix[j] = 0;
                while (i >= 1 && ++ix[i] == (int)salpha.size()) ix[i--] = 0;
                if (i < 1) break;
            }
        }
        shm->states += states.size();
        if (firstop == 0 && initial == 1) sample("session initial=1 ops= openP:Write write0 openP:Write size");
    });
    parallel(tasks);
    fs::remove_all(root);
    shm->validated = shm->transitions;
    sx::detail(fmt("(a) every byte string of length <= %d over {00,FF,0D,0A,'a',1A} x every split into successive write() calls (mode Write), plus each string in every write/append mode x {no file, existing 'xy'} x {write(ptr), write(Array), write(string)}; "
                   "read back in Read and ReadText through read(), readStr(), size() and read(buf,1,n) loops for n=1..3; (b) patterned files of 4095/4096/4097/65537/1MiB+3 bytes written in two pieces cut at 8 positions; "
                   "(c) every sequence of length <= %d over seek(-1..2, Start/Current/End), tell, size, read(buf,1,0..2), read() on a 3-byte file in both read modes against a byte-vector-with-position model; (d) NotFound / NotFile errors; "
                   "(e) every session of <= %d calls on ONE File object over two paths: open(path, any of the six modes) incl. re-open without close, write, flush, close, seek, size, tell, readStr, read(buf,1,1), then destruction; "
                   "sizes, positions and read results are compared after every call and both files on disk at the end with a path->bytes model in which writes take effect in call order", maxlen, depth, sdepth));
}

void replay(const std::string &hist) {
    std::string root = fmt("/dev/shm/tulz-verif-file-replay-%d", (int)getpid());
    fs::remove_all(root); fs::create_directories(root); std::string path = root + "/f";
    char content[64]; unsigned mask; int wmode, pre, api, rm; size_t size, cut;
    FdGuard *fdg = new FdGuard;
    if (sscanf(hist.c_str(), "rt content=%63s mask=%u wmode=%d pre=%d api=%d", content, &mask, &wmode, &pre, &api) == 5) round_trip(unhex(content), mask, wmode, pre, api, path);
    else if (sscanf(hist.c_str(), "large size=%zu cut=%zu", &size, &cut) == 2) large(size, cut, path);
    else if (hist == "errors") errors(root);
    else if (sscanf(hist.c_str(), "seek rm=%d ops=", &rm) == 1) {
        auto alpha = seek_alphabet(); std::vector<SeekOp> ops; std::stringstream ss(hist.substr(hist.find("ops=") + 4)); std::string tok;
        while (ss >> tok) for (auto &a : alpha) if (sop_str(a) == tok) ops.push_back(a);
        Bytes c("\xff\x00\x0a", 3); spit(path, c); seek_sequence(c, rm ? File::Mode::ReadText : File::Mode::Read, ops, path, nullptr);
    } else if (hist.compare(0, 8, "session ") == 0) {
        int initial = 1; sscanf(hist.c_str(), "session initial=%d", &initial);
        auto alpha = session_alphabet(); std::vector<SessOp> ops; std::stringstream ss(hist.substr(hist.find("ops=") + 4)); std::string tok;
        while (ss >> tok) for (auto &a : alpha) if (eop_str(a) == tok) ops.push_back(a);
        session(ops, root, initial, nullptr);
    } else violation("replay:parse", "cannot parse " + hist);
    delete fdg;
    fs::remove_all(root);
}
}  // namespace

int main(int argc, char **argv) {
    Harness h;
    h.name = "file";
    h.rule = "bounded-exhaustive enumeration of inputs and call sequences against the real File on a tmpfs directory: all byte strings up to the length bound over an alphabet of troublesome bytes, all splits into write calls, all open modes, "
             "all read-back paths, all seek/tell/size/read sequences up to the depth bound compared step by step with a byte-vector-with-position model and with std::filesystem; non-trivial = non-empty content";
    h.assumptions = {"POSIX host (text and binary modes coincide)", "the kernel's tmpfs is the environment; no I/O errors or short reads are injected", "reading from a stream opened in a write/append mode is outside the property and not exercised"};
    h.explore = explore; h.replay = replay;
    return run_main(argc, argv, h);
}
