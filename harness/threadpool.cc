// E1 harness for tulz::ThreadPool: properties C07 C08 (and the ThreadPool part of C15).
#include <tulz/threading/ThreadPool.h>
#include <tulz/threading/Thread.h>

#include <memory>
#include <string>
#include <system_error>
#include <vector>

#include "../engine/explore.h"

namespace {
enum { EV_SUBMIT = 110, EV_RUN_ENTER = 111, EV_RUN_EXIT = 112, EV_DESTROY = 113, EV_OP = 114, EV_OP_RET = 115 };
enum { CELL_DESTROYED = 10, CELL_RUNNING = 11, CELL_RAN = 12 };
const int MAXTASK = 96;      // (the stateful pass keeps per-task cells for the first 8 only; its scripts are short)

tulz::ThreadPool *g_pool;

struct Task;
int task_id_of(tulz::Runnable *r);

// private members are probed at compile time (a refactoring of tulz may rename them): without the known layout the fingerprint is only a counter and the stateful programs are left out
template<typename P> constexpr bool known_layout_v = requires(P &p) { p.m_queue.begin(); p.m_queue.size(); p.m_pool.size(); (uint64_t)p.m_isRunning; (uint64_t)p.m_maxThreadCount; (uint64_t)p.m_expiryTimeout; };
constexpr bool kKnownLayout = known_layout_v<tulz::ThreadPool>;
template<typename P> uint64_t pool_state_of(P *pool);

uint64_t pool_state() { return g_pool ? pool_state_of(g_pool) : 0; }
template<typename P> uint64_t pool_state_of(P *g_pool) {
    uint64_t h = 3;
    if constexpr (!known_layout_v<P>) return h; else {
    h = vs_mix(h, g_pool->m_queue.size());
    for (auto r : g_pool->m_queue) h = vs_mix(h, (uint64_t)(task_id_of(r) + 2));      // which tasks are queued, in order
    h = vs_mix(h, g_pool->m_pool.size());
    // (the workers' finished flags are not read here: stop()/update() leave deleted Thread objects in m_pool until they clear it; a worker's flag is set in the same step in which its thread ends, which the scheduler's own thread table records)
    h = vs_mix(h, g_pool->m_isRunning);
    h = vs_mix(h, (uint64_t)g_pool->m_maxThreadCount); h = vs_mix(h, (uint64_t)(g_pool->m_expiryTimeout + 7));
    return h;
    }
}

// ---- stateful pass: the life cycle of every task is kept in scheduler cells (part of the state fingerprint) and judged online
enum { CELL_STOPS = 13, CELL_LASTRUN = 14, CELL_ONLINE = 15, CELL_TS0 = 16, CELL_SUBGEN0 = 16 + 8, CELL_SINGLE = 33 };
enum { TS_NONE = 0, TS_QUEUED = 1, TS_RUNNING = 2, TS_RAN = 3, TS_DONE = 4, TS_DROPPED = 5 };
void online_enter(int id) {
    if (!vs_cell_get(CELL_ONLINE)) return;
    long st = vs_cell_get(CELL_TS0 + id);
    if (st == TS_RUNNING || st == TS_RAN || st == TS_DONE) vs_fail("task %d was executed a second time", id);
    if (st == TS_DROPPED) vs_fail("task %d started running after it had been destroyed", id);
    if (st != TS_QUEUED) vs_fail("task %d started running although it was never submitted", id);
    if (vs_cell_get(CELL_STOPS) > vs_cell_get(CELL_SUBGEN0 + id)) vs_fail("task %d started running after stop() had returned", id);
    if (vs_cell_get(CELL_SINGLE) && id < vs_cell_get(CELL_LASTRUN)) vs_fail("single worker: task %d ran after task %ld (submission order violated)", id, vs_cell_get(CELL_LASTRUN));
    vs_cell_set(CELL_LASTRUN, id);
    vs_cell_set(CELL_TS0 + id, TS_RUNNING);
}
void online_exit(int id) { if (vs_cell_get(CELL_ONLINE)) vs_cell_set(CELL_TS0 + id, TS_RAN); }
void online_destroy(int id) {
    if (!vs_cell_get(CELL_ONLINE)) return;
    long st = vs_cell_get(CELL_TS0 + id);
    if (st == TS_RUNNING) vs_fail("task %d was destroyed while it was running", id);
    if (st == TS_DONE || st == TS_DROPPED) vs_fail("task %d was destroyed twice", id);
    vs_cell_set(CELL_TS0 + id, st == TS_RAN ? TS_DONE : TS_DROPPED);
}

struct Task : tulz::Runnable {
    int id;
    explicit Task(int i) : id(i) {}
    void run() override {
        vs_event(EV_RUN_ENTER, id, 0);
        online_enter(id);
        vs_cell_add(CELL_RUNNING, 1);
        vs_point(3);                       // running a task has duration
        vs_cell_add(CELL_RUNNING, -1);
        vs_cell_add(CELL_RAN, 1);
        online_exit(id);
        vs_event(EV_RUN_EXIT, id, 0);
    }
    ~Task() override {
        vs_event(EV_DESTROY, id, 0);
        online_destroy(id);
        vs_cell_add(CELL_DESTROYED, 1);
    }
};
enum { CELL_GATE = 40, CELL_GATE_RAN = 41 };
int pred_gate(void *) { return vs_cell_get(CELL_GATE) != 0; }
int pred_gate_ran(void *) { return vs_cell_get(CELL_GATE_RAN) != 0; }
struct GateTask : tulz::Runnable { void run() override { vs_block_until(pred_gate, nullptr); } ~GateTask() override { vs_cell_set(CELL_GATE_RAN, 1); } };
int task_id_of(tulz::Runnable *r) { auto t = dynamic_cast<Task *>(r); return t ? t->id : -1; }

// a task given to the template start(): the pool wraps a COPY of the functor in its own Runnable; the task counts as destroyed
// when the last copy of the functor is gone
int g_functor_copies[MAXTASK];
struct Functor {
    int id;
    explicit Functor(int i) : id(i) { g_functor_copies[id]++; }
    Functor(const Functor &o) : id(o.id) { g_functor_copies[id]++; }
    Functor &operator=(const Functor &) = default;
    ~Functor() { if (--g_functor_copies[id] == 0) { vs_event(EV_DESTROY, id, 0); vs_cell_add(CELL_DESTROYED, 1); } }
    void operator()(int &arg) const {
        vs_event(EV_RUN_ENTER, id, arg);
        vs_cell_add(CELL_RUNNING, 1);
        vs_point(3);
        vs_cell_add(CELL_RUNNING, -1);
        vs_cell_add(CELL_RAN, 1);
        vs_event(EV_RUN_EXIT, id, 0);
    }
};
int g_functor_arg = 77;

int pred_destroyed(void *arg) { return vs_cell_get(CELL_DESTROYED) >= (long)arg; }

struct Spec {
    std::string script;      // S start, C clear, X stop, W wait until every submitted task is destroyed, U update, A advance clock beyond expiry, G getters
    int maxThreads = 1;
    int expiry = -1;
    bool check_tasks = false;   // C07 oracle
    bool check_stop = false;    // C08 oracle
    int create_faults = 0;      // thread creation may fail (EAGAIN) that many times; start() then throws std::system_error, which the owner catches
    bool stateful = false;      // all schedules (no preemption bound), cut off at visited states; task life cycles judged online in cells
    int spurious = 0;           // spurious wake-ups of waiting workers the scheduler may generate per execution (each costs 1 from the bound)
    bool single = false;        // a program too large to enumerate: only its default schedule is executed
    std::string label;          // short name for long scripts
    int second_pool = 0;        // another ThreadPool is alive during the whole script, its single worker busy with a task that ends after the script (1) or idle after one task (2): the two pools share nothing
};

struct TaskInfo { int submit = -1, enter = -1, exit = -1, destroy = -1, enters = 0, destroys = 0, run_tid = -1; bool must_run = false; };

void run_stateful(const Spec &s) {
    auto pool = std::make_unique<tulz::ThreadPool>();
    g_pool = pool.get();
    pool->setExpiryTimeout(s.expiry);
    pool->setMaxThreadCount(s.maxThreads);
    vs_cell_set(CELL_ONLINE, s.check_tasks ? 1 : 0); vs_cell_set(CELL_SINGLE, s.maxThreads == 1); vs_cell_set(CELL_LASTRUN, -1);
    int submitted = 0, stops = 0;
    std::vector<int> pending;       // tasks submitted since the last clear/stop: they must have run when W returns
    for (char c : s.script) {
        vs_event(EV_OP, c, 0);
        switch (c) {
        case 'S': { int id = submitted++; vs_event(EV_SUBMIT, id, 0); vs_cell_set(CELL_TS0 + id, TS_QUEUED); vs_cell_set(CELL_SUBGEN0 + id, stops); pool->start(new Task(id)); pending.push_back(id); break; }
        case 'C': pool->clear(); pending.clear(); break;
        case 'X':
            pool->stop(); stops++; vs_cell_set(CELL_STOPS, stops); pending.clear();
            if (s.check_stop) {
                if (pool->getThreadCount() != 0) vs_fail("after stop(): getThreadCount() == %d, expected 0", pool->getThreadCount());
                if (vs_cell_get(CELL_RUNNING) != 0) vs_fail("after stop(): %ld task(s) still running", vs_cell_get(CELL_RUNNING));
                if (vs_cell_get(CELL_DESTROYED) != submitted) vs_fail("after stop(): %d task(s) submitted but %ld destroyed - a queued task survived stop()", submitted, vs_cell_get(CELL_DESTROYED));
            }
            break;
        case 'W':
            vs_note(stops ? "restarted-after-stop" : "");
            vs_block_until(pred_destroyed, (void *)(long)submitted);
            vs_note("");
            if (s.check_tasks) for (int id : pending) if (vs_cell_get(CELL_TS0 + id) != TS_DONE) vs_fail("task %d was never executed although the pool was neither cleared nor stopped before the owner saw it destroyed", id);
            pending.clear();
            break;
        }
        vs_event(EV_OP_RET, c, 0);
        if (s.check_stop && pool->getThreadCount() > s.maxThreads) vs_fail("getThreadCount() == %d exceeds the configured maximum %d", pool->getThreadCount(), s.maxThreads);
    }
    if (s.check_tasks) for (int id = 0; id < submitted; id++) { long st = vs_cell_get(CELL_TS0 + id); if (st != TS_DONE && st != TS_DROPPED) vs_fail("task %d was not destroyed although the script ended with stop()", id); }
    g_pool = nullptr;
}

void run(const Spec &s) {
    auto pool = std::make_unique<tulz::ThreadPool>();
    g_pool = pool.get();
    for (int &c : g_functor_copies) c = 0;
    pool->setExpiryTimeout(s.expiry);
    pool->setMaxThreadCount(s.maxThreads);
    int submitted = 0;
    std::vector<int> pending_since_barrier;       // tasks submitted since the last clear/stop (they must run before W returns)
    std::vector<bool> must_run(MAXTASK, false);
    std::vector<int> stop_returns;                // log positions at which a stop() returned
    auto logpos = [] { int n; vs_log(&n); return n; };
    std::unique_ptr<tulz::ThreadPool> other; int log_start = 0;
    if (s.second_pool) {
        vs_cell_set(CELL_GATE, s.second_pool == 2); vs_cell_set(CELL_GATE_RAN, 0);
        other = std::make_unique<tulz::ThreadPool>(); other->setMaxThreadCount(1); other->start(new GateTask);
        if (s.second_pool == 2) vs_block_until(pred_gate_ran, nullptr);      // its worker has finished the task and idles
        log_start = logpos();
    }

    for (char c : s.script) {
        vs_event(EV_OP, c, 0);
        switch (c) {
        case 'S': {
            int id = submitted++;
            vs_event(EV_SUBMIT, id, 0);
            try { pool->start(new Task(id)); } catch (const std::system_error &) { vs_event(EV_OP_RET, 'e', 0); }      // the task was handed over before the worker could not be created: the pool owns it
            pending_since_barrier.push_back(id);
            break;
        }
        case 'F': {      // template start(): functor + one lvalue argument
            int id = submitted++;
            vs_event(EV_SUBMIT, id, 0);
            try { pool->start(Functor(id), g_functor_arg); } catch (const std::system_error &) { vs_event(EV_OP_RET, 'e', 0); }
            pending_since_barrier.push_back(id);
            break;
        }
        case 'L': {      // template start() with a NAMED functor that goes out of scope right after the call: the pool must own its own copy
            int id = submitted++;
            vs_event(EV_SUBMIT, id, 0);
            { Functor f(id); try { pool->start(f, g_functor_arg); } catch (const std::system_error &) { vs_event(EV_OP_RET, 'e', 0); } }
            pending_since_barrier.push_back(id);
            break;
        }
        case 'C': pool->clear(); pending_since_barrier.clear(); break;
        case 'X': {
            pool->stop();
            stop_returns.push_back(logpos());
            pending_since_barrier.clear();
            if (s.check_stop) {
                if (pool->getThreadCount() != 0) vs_fail("after stop(): getThreadCount() == %d, expected 0", pool->getThreadCount());
                if (vs_cell_get(CELL_RUNNING) != 0) vs_fail("after stop(): %ld task(s) still running", vs_cell_get(CELL_RUNNING));
                if (vs_cell_get(CELL_DESTROYED) != submitted) vs_fail("after stop(): %d task(s) submitted but %ld destroyed - a queued task survived stop()", submitted, vs_cell_get(CELL_DESTROYED));
            }
            break;
        }
        case 'W':
            // after a stop() this wait is the restart clause of C08: a task submitted to the restarted pool must be executed and destroyed
            vs_note(stop_returns.empty() ? "" : "restarted-after-stop");
            vs_block_until(pred_destroyed, (void *)(long)submitted);
            vs_note("");
            for (int id : pending_since_barrier) must_run[id] = true;
            break;
        case 'U': pool->update(); break;
        case 'A': vs_clock_advance_ms(s.expiry + 10); break;
        case 'G': (void)pool->getActiveThreadCount(); (void)pool->getThreadCount(); (void)pool->isRunning(); (void)pool->getExpiryTimeout(); (void)pool->getMaxThreadCount(); break;
        }
        vs_event(EV_OP_RET, c, 0);
        if (s.check_stop && s.maxThreads >= 0 && pool->getThreadCount() > s.maxThreads)
            vs_fail("getThreadCount() == %d exceeds the configured maximum %d", pool->getThreadCount(), s.maxThreads);
    }

    // ---- oracles over the event log
    int n; const vs_ev *ev = vs_log(&n);
    std::vector<TaskInfo> ti(submitted);
    std::vector<int> run_order;
    int created_since_stop = 0; size_t stop_i = 0;
    for (int i = log_start; i < n; i++) {
        const vs_ev &e = ev[i];
        while (stop_i < stop_returns.size() && i >= stop_returns[stop_i]) { created_since_stop = 0; stop_i++; }
        if (e.kind == VS_EV_CREATE) {
            if (++created_since_stop > s.maxThreads && s.check_stop && s.expiry < 0)
                vs_fail("%d worker threads were created without an intervening stop(), maximum is %d", created_since_stop, s.maxThreads);
        }
        if (e.kind < EV_SUBMIT || e.kind > EV_DESTROY) continue;
        TaskInfo &t = ti[e.a];
        if (e.kind == EV_SUBMIT) t.submit = i;
        if (e.kind == EV_RUN_ENTER) {
            t.enters++; if (t.enter < 0) t.enter = i; t.run_tid = e.tid; run_order.push_back(e.a);
            if (s.check_tasks && t.destroy >= 0) vs_fail("task %d started running after it had been destroyed", e.a);
            if (s.check_tasks) for (int sr : stop_returns) if (i >= sr && t.submit < sr) vs_fail("task %d started running after stop() had returned", e.a);
        }
        if (e.kind == EV_RUN_EXIT) t.exit = i;
        if (e.kind == EV_DESTROY) {
            t.destroys++; if (t.destroy < 0) t.destroy = i;
            if (s.check_tasks && t.enter >= 0 && t.exit < 0) vs_fail("task %d was destroyed while it was running", e.a);
        }
    }
    if (s.check_tasks) {
        for (int id = 0; id < submitted; id++) {
            const TaskInfo &t = ti[id];
            if (t.enters > 1) vs_fail("task %d was executed %d times", id, t.enters);
            if (t.destroys != 1) vs_fail("task %d was destroyed %d times (script ended with stop())", id, t.destroys);
            if (must_run[id] && t.enters != 1) vs_fail("task %d was never executed although the pool was neither cleared nor stopped before the owner saw it destroyed", id);
        }
        if (s.maxThreads == 1) {
            for (size_t i = 1; i < run_order.size(); i++) if (run_order[i] < run_order[i - 1])
                vs_fail("single worker: task %d ran before task %d (submission order violated)", run_order[i], run_order[i - 1]);
        }
    }
    g_pool = nullptr;
    if (other) { vs_cell_set(CELL_GATE, 1); other->stop(); if (other->getThreadCount() != 0) vs_fail("the second pool reports %d threads after its stop()", other->getThreadCount()); }
}

std::string ev_name(const vs_ev &e) {
    char b[96];
    switch (e.kind) {
    case EV_SUBMIT: snprintf(b, sizeof b, "owner submits task %d", e.a); return b;
    case EV_RUN_ENTER: snprintf(b, sizeof b, "task %d run() enter", e.a); return b;
    case EV_RUN_EXIT: snprintf(b, sizeof b, "task %d run() exit", e.a); return b;
    case EV_DESTROY: snprintf(b, sizeof b, "task %d destroyed", e.a); return b;
    case EV_OP: snprintf(b, sizeof b, "owner op '%c' begins", (char)e.a); return b;
    case EV_OP_RET: snprintf(b, sizeof b, "owner op '%c' returned", (char)e.a); return b;
    }
    return "";
}

void add(VSuite &suite, Spec s, int bound, const std::string &flavour) {
    if (s.stateful && !kKnownLayout) return;      // the stateful pass needs the complete state of the pool
    VProgram p;
    p.name = (s.label.empty() ? s.script : s.label) + "-max" + std::to_string(s.maxThreads) + (s.expiry >= 0 ? "-expiry" + std::to_string(s.expiry) : "") + (s.spurious ? "+spurious" : "") + (s.create_faults ? "+nothread" : "") + (s.second_pool == 1 ? "+2pools" : s.second_pool == 2 ? "+idlepool" : "") + (s.stateful ? "@all" : "");
    p.spurious = s.spurious; p.stateful = s.stateful; p.create_faults = s.create_faults;
    p.describe = "owner script " + s.script + " (S start task, F start a functor through the template start(), L the same with a named functor that dies right after the call, C clear, X stop, W wait until all submitted tasks are destroyed, U update, A advance the clock past the expiry timeout, G getters), maxThreadCount=" +
                 std::to_string(s.maxThreads) + ", expiryTimeout=" + std::to_string(s.expiry) + "; every task has a scheduling point inside run()" + (s.spurious ? "; one spurious wake-up of a waiting worker may happen anywhere (costs 1 like a preemption)" : "") +
                 (s.create_faults ? "; the creation of one worker thread may fail with EAGAIN (costs 1 like a preemption): start() throws, the owner catches and carries on" : "");
    p.single_schedule = s.single; if (s.single) { p.name += "@once"; p.describe += "; ONE schedule only (the default one): the program is too large to enumerate and is run as a plain scenario"; }
    p.bound = bound;
    p.unlock_points = true;         // ThreadPool publishes flags outside its mutexes: make every release a scheduling point
    p.body = [s] { if (s.stateful) run_stateful(s); else run(s); };
    if (s.stateful) p.describe += "; ALL schedules without a preemption bound: the depth-first search is cut off at every state (thread positions, scheduler objects, task life-cycle cells, the pool's queue contents, worker list and flags) that was reached before";
    p.state_cb = flavour == "tsan" ? nullptr : pool_state;
    suite.programs.push_back(std::move(p));
}

bool provider(const std::string &prop, const std::string &tier, const std::string &flavour, VSuite &suite) {
    if (prop != "C07" && prop != "C08" && prop != "C15") return false;
    bool thorough = tier == "thorough";
    suite.event_name = ev_name;
    Spec base; base.check_tasks = prop == "C07"; base.check_stop = prop == "C08";
    if (prop == "C15") {
        int b = thorough ? 3 : 2;
        { Spec s = base; s.script = "SSWX"; s.maxThreads = 2; add(suite, s, b, flavour); }
        { Spec s = base; s.script = "SGSX"; s.maxThreads = 1; add(suite, s, b, flavour); }
        { Spec s = base; s.script = "SWAUGUGSX"; s.maxThreads = 1; s.expiry = 0; add(suite, s, b, flavour); }
        { Spec s = base; s.script = "SXSWX"; s.maxThreads = 1; add(suite, s, b, flavour); }
        { Spec s = base; s.script = "SCGSX"; s.maxThreads = 2; add(suite, s, b, flavour); }
        return true;
    }
    suite.rule = "every schedule of the owner thread and the worker threads with at most c preemptions (scheduling points at lock / unlock / cond-wait / re-acquire / notify / thread create+exit+join and inside every task), "
                 "every notify_one target, for each listed owner script and c = 0..bound; non-trivial = some thread really blocked";
    suite.assumptions = {"sequential consistency at synchronisation-step granularity (data races are what C15 checks on the same programs)", "non-expiring workers (expiry timeout -1) unless the program name says otherwise",
                         "spurious condition-variable wake-ups are generated only in the programs marked +spurious (one per execution, costing 1 deviation)", "one owner thread; bounded scripts, task counts, worker counts and preemption bounds as listed per program"};
    if (prop == "C07") suite.relevant = [](int o, const std::string &m, const std::string &) { return o == VS_OUT_ORACLE || o == VS_OUT_CRASH || (o == VS_OUT_DEADLOCK && m.find("t0:blocked-in-harness-wait") != std::string::npos); };
    if (prop == "C08") suite.relevant = [](int o, const std::string &m, const std::string &) { return o == VS_OUT_ORACLE || (o == VS_OUT_DEADLOCK && (m.find("t0:blocked-in-harness-wait") == std::string::npos || m.find("note=restarted-after-stop") != std::string::npos)); };
    suite.rule += "; programs marked @all: every schedule without a preemption bound (depth-first, cut off at states reached before, task life cycles kept online in the state)";
    int b = thorough ? 4 : 3;
    for (int mt : {1, 2}) {
        for (const char *sc : {"SWX", "SX", "SSWX", "SSX", "SCSWX", "SXSWX", "SSCX"}) { Spec s = base; s.script = sc; s.maxThreads = mt; add(suite, s, b, flavour); }
    }
    { Spec s = base; s.script = "SSSWX"; s.maxThreads = 2; add(suite, s, thorough ? 3 : 2, flavour); }
    { Spec s = base; s.script = "SWSWX"; s.maxThreads = 2; add(suite, s, 3, flavour); }
    { Spec s = base; s.script = "X"; s.maxThreads = 1; add(suite, s, 1, flavour); }
    { Spec s = base; s.script = "SWXX"; s.maxThreads = 1; add(suite, s, 3, flavour); }
    { Spec s = base; s.script = "SSCSX"; s.maxThreads = 2; add(suite, s, 2, flavour); }
    { Spec s = base; s.script = "FFWX"; s.maxThreads = 2; add(suite, s, 2, flavour); }          // template start(T, Args&&...)
    { Spec s = base; s.script = "FSCFX"; s.maxThreads = 1; add(suite, s, 3, flavour); }
    { Spec s = base; s.script = "LLWX"; s.maxThreads = 1; add(suite, s, 2, flavour); }           // named functors that die before the worker gets to them
    { Spec s = base; s.script = "SLX"; s.maxThreads = 2; add(suite, s, 2, flavour); }
    // ---- many tasks: whatever the queue does differently above some length (a ring that grows, a vector with a moving head) is on both sides of it here
    {
        { Spec s = base; s.script = std::string(20, 'S') + "WX"; s.label = "Sx20,W,X"; s.maxThreads = 1; add(suite, s, 1, flavour); }
        { Spec s = base; s.script = std::string(20, 'S') + "X"; s.label = "Sx20,X"; s.maxThreads = 2; add(suite, s, 1, flavour); }
        for (int n : {17, 33, 40, 70}) for (int mt : {1, 2, 3}) { Spec s = base; s.script = std::string(n, 'S') + "WX"; s.label = "Sx" + std::to_string(n) + ",W,X"; s.maxThreads = mt; s.single = true; add(suite, s, 0, flavour); }
        { Spec s = base; s.script = std::string(33, 'S') + "C" + std::string(18, 'S') + "WX"; s.label = "Sx33,C,Sx18,W,X"; s.maxThreads = 2; s.single = true; add(suite, s, 0, flavour); }
        { Spec s = base; s.script = std::string(40, 'S') + "X"; s.label = "Sx40,X"; s.maxThreads = 2; s.single = true; add(suite, s, 0, flavour); }
    }
    // ---- a second pool alive at the same time (anything the pools might share - a static queue, counter or condition variable - shows as a stuck stop() or a stolen task)
    for (const char *sc : {"SX", "SSWX", "SCSWX", "SXSWX"}) for (int mt : {1, 2}) for (int kind : {1, 2}) { Spec s = base; s.script = sc; s.maxThreads = mt; s.second_pool = kind; add(suite, s, 2, flavour); }
    // ---- stateful pass: ALL schedules of these scripts
    if (flavour == "plain" || flavour == "hooked") {
        for (int mt : {1, 2}) for (const char *sc : {"SWX", "SX", "SSWX", "SSX", "SCSWX", "SXSWX", "SSCX", "SWSWX", "SWXX"}) { Spec s = base; s.script = sc; s.maxThreads = mt; s.stateful = true; add(suite, s, 0, flavour); }
        for (int mt : {1, 2}) for (const char *sc : {"SWX", "SXSWX"}) { Spec s = base; s.script = sc; s.maxThreads = mt; s.stateful = true; s.spurious = 1; add(suite, s, 0, flavour); }
        if (thorough) for (const char *sc : {"SSSWX", "SSCSX", "SSXSSWX"}) { Spec s = base; s.script = sc; s.maxThreads = 2; s.stateful = true; add(suite, s, 0, flavour); }
    }
    // thread creation fails once (EAGAIN): start() throws after it has queued the task; the pool owns the task all the same - destroyed exactly once, never run after destruction
    // (scripts without W: a task whose worker could not be created need not run before stop())
    for (int mt : {1, 2}) for (const char *sc : {"SX", "SSX", "FX", "FSX", "SFCX", "FFX"}) { Spec s = base; s.script = sc; s.maxThreads = mt; s.create_faults = 1; add(suite, s, 2, flavour); }
    // spurious wake-ups of idle workers (POSIX allows them for every condition wait)
    for (int mt : {1, 2}) for (const char *sc : {"SWX", "SWSWX", "SCSWX", "SXSWX"}) { Spec s = base; s.script = sc; s.maxThreads = mt; s.spurious = 1; add(suite, s, thorough ? 3 : 2, flavour); }
    if (thorough) {
        { Spec s = base; s.script = "SSSWX"; s.maxThreads = 3; add(suite, s, 2, flavour); }
        { Spec s = base; s.script = "SSSSWX"; s.maxThreads = 2; add(suite, s, 2, flavour); }
        { Spec s = base; s.script = "SSXSSWX"; s.maxThreads = 2; add(suite, s, 2, flavour); }
        { Spec s = base; s.script = "SSCSSX"; s.maxThreads = 2; add(suite, s, 2, flavour); }
    }
    return true;
}
VX_REGISTER(provider);
}  // namespace
