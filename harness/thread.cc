// E1 harness for tulz::Thread: property C20.
#include <tulz/threading/Thread.h>

#include <cstring>
#include <memory>
#include <set>
#include <system_error>
#include <vector>
#include <string>

#include "../engine/explore.h"

namespace {
enum { EV_CALL = 120, EV_CALL_EXIT = 121, EV_START_RET = 122, EV_OBS = 123, EV_JOIN_RET = 124, EV_RUN_DESTROY = 125 };
enum { CELL_CALLS = 20, CELL_EXITS = 21, CELL_DESTROYS = 22 };
const unsigned LIVE = 0x11223344u, DEAD = 0xdeadbeefu;

std::set<const void *> g_live;      // addresses of callable objects that are currently alive

struct Canary {
    unsigned magic = LIVE;
    Canary() { g_live.insert(this); }
    Canary(const Canary &o) { o.check("copy/move of the callable"); g_live.insert(this); }
    Canary &operator=(const Canary &) = default;
    ~Canary() { magic = DEAD; g_live.erase(this); }
    void check(const char *what) const {
        if (magic != LIVE || !g_live.count(this))
            vs_fail("%s: the callable object invoked on the new thread is not alive (canary %#x, registered=%d): it was destroyed when start() returned", what, magic, (int)g_live.count(this));
    }
};

void body(int a, const std::string *s, int expect_a, const char *expect_s) {
    vs_event(EV_CALL, a, 0);
    vs_cell_add(CELL_CALLS, 1);
    if (a != expect_a) vs_fail("callable received argument %d, expected %d", a, expect_a);
    if (s && *s != expect_s) vs_fail("callable received string argument '%s', expected '%s'", s->c_str(), expect_s);
    vs_point(5);
    vs_cell_add(CELL_EXITS, 1);
    vs_event(EV_CALL_EXIT, a, 0);
}

void fn0() { body(0, nullptr, 0, ""); }
void fn2(int &a, std::string &s) { body(a, &s, 7, "a string argument that does not fit the small buffer"); }

struct Small {
    Canary c; int id;
    void operator()() const { c.check("small closure"); body(id, nullptr, 41, ""); }
    void operator()(int &a, std::string &s) const { c.check("small closure"); body(a, &s, 7, "a string argument that does not fit the small buffer"); }
};
struct Large {
    Canary c; char pad[256]; int id;
    void operator()() const {
        c.check("large closure");
        for (int i = 0; i < 256; i++) if (pad[i] != (char)(i * 7)) vs_fail("large closure: captured bytes are corrupted at offset %d", i);
        body(id, nullptr, 42, "");
    }
};

struct Job : tulz::Runnable {
    Canary c;
    void run() override { c.check("Runnable"); body(43, nullptr, 43, ""); }
    ~Job() override { vs_event(EV_RUN_DESTROY, 0, 0); vs_cell_add(CELL_DESTROYS, 1); }
};

// overwrite the stack region that the frames of start()/launch() used
__attribute__((noinline)) void clobber() {
    volatile char junk[4096];
    for (size_t i = 0; i < sizeof junk; i++) junk[i] = 0x41;
    asm volatile("" ::: "memory");
}

enum Kind { K_FN0, K_FN2, K_SMALL0, K_SMALL2, K_LARGE0, K_LAMBDA, K_RUNNABLE, K_CTOR_SMALL, K_SELFQ, K_DETACH, K_STRCAP };

__attribute__((noinline)) void launch(tulz::Thread &t, Kind k, int &a, std::string &s) {
    switch (k) {
    case K_FN0: t.start(fn0); break;
    case K_FN2: t.start(fn2, a, s); break;
    case K_SMALL0: { Small c; c.id = 41; t.start(c); break; }
    case K_SMALL2: { Small c; c.id = 41; t.start(c, a, s); break; }
    case K_LARGE0: { Large c; c.id = 42; for (int i = 0; i < 256; i++) c.pad[i] = (char)(i * 7); t.start(c); break; }
    case K_LAMBDA: { Canary can; int id = 41; t.start([can, id] { can.check("lambda closure"); body(id, nullptr, 41, ""); }); break; }
    case K_RUNNABLE: t.start(new Job()); break;
    case K_SELFQ: {      // the callable asks its own Thread object how it is doing, first thing
        tulz::Thread *tp = &t;
        t.start([tp] {
            if (tp->isFinished()) vs_fail("isFinished() returned true to the callable itself, which has only just been entered");
            if (!tp->isRunning()) vs_fail("isRunning() returned false to the callable itself, which has only just been entered");
            body(41, nullptr, 41, "");
        });
        break;
    }
    case K_DETACH: { Small c; c.id = 41; t.start(c); break; }
    case K_STRCAP: {     // a closure whose moved-from state differs from a copy; the creation of the thread may fail once (EAGAIN), the caller then starts it again with its own, intact closure
        std::string msg = "a captured string that does not fit the small-string buffer"; std::vector<int> v{1, 2, 3};
        auto c = [msg, v] {
            if (msg != "a captured string that does not fit the small-string buffer" || v.size() != 3) vs_fail("the callable ran on a moved-from copy of the closure (captured string has %zu characters, vector %zu elements)", msg.size(), v.size());
            body(41, nullptr, 41, "");
        };
        try { t.start(c); } catch (const std::system_error &) { vs_event(EV_OBS, 9, 0); t.start(c); }
        break;
    }
    case K_CTOR_SMALL: break;
    }
}

// ---- race pass (tsan flavour): "isFinished() becomes true only after the callable has returned" must hold as a happens-before relation: a starter that has seen
// isFinished() == true (or isRunning() == false) reads what the callable wrote, without joining first.  Plain data only: ThreadSanitizer judges every enumerated schedule.
int g_plain_result, g_plain_destroyed;
void fn_plain() { vs_point(5); g_plain_result = 42; }
struct PlainJob : tulz::Runnable { void run() override { vs_point(5); g_plain_result = 43; } ~PlainJob() override { g_plain_destroyed = 1; } };
void run_plain(bool runnable) {
    g_plain_result = 0; g_plain_destroyed = 0;
    tulz::Thread t;
    if (runnable) t.start(new PlainJob()); else t.start(fn_plain);
    vs_point(6);
    if (t.isFinished()) { if (g_plain_result != (runnable ? 43 : 42)) vs_fail("isFinished() returned true but the callable's result is not there"); if (runnable && !g_plain_destroyed) vs_fail("isFinished() returned true before the Runnable was destroyed"); }
    vs_point(6);
    if (!t.isRunning()) { if (g_plain_result != (runnable ? 43 : 42)) vs_fail("isRunning() returned false but the callable's result is not there"); }
    t.join();
    if (g_plain_result != (runnable ? 43 : 42)) vs_fail("join() returned but the callable's result is not there");
}

void observe(tulz::Thread &t, int which) {
    bool fin = t.isFinished();
    vs_event(EV_OBS, which, fin);
    if (fin && vs_cell_get(CELL_EXITS) != 1) vs_fail("isFinished() returned true before the callable had returned");
    if (fin && t.isRunning()) vs_fail("isFinished() and isRunning() both true");
}

void run(Kind k) {
    g_live.clear();
    int a = 7; std::string s = "a string argument that does not fit the small buffer";
    std::unique_ptr<tulz::Thread> t;
    if (k == K_CTOR_SMALL) { Small c; c.id = 41; t = std::make_unique<tulz::Thread>(c); }
    else { t = std::make_unique<tulz::Thread>(); launch(*t, k, a, s); }
    vs_event(EV_START_RET, 0, 0);
    clobber();
    observe(*t, 0);
    vs_point(6);
    observe(*t, 1);
    if (k == K_DETACH) {
        // the owner lets go of the thread instead of joining it: completion is still what isFinished() reports
        t->std_thread().detach();
        observe(*t, 2);
        vs_point(6);
        observe(*t, 3);
        vs_block_until([](void *) -> int { return vs_cell_get(CELL_EXITS) == 1; }, nullptr);
        observe(*t, 4);
        vs_block_until([](void *) -> int { return vs_thread_finished(1); }, nullptr);      // the Thread object must outlive its detached thread
        if (!t->isFinished()) vs_fail("the detached thread has ended but isFinished() is false");
        if (vs_cell_get(CELL_CALLS) != 1) vs_fail("the callable was invoked %ld times, expected exactly once", vs_cell_get(CELL_CALLS));
        return;
    }
    if (!t->isJoinable()) vs_fail("isJoinable() false after start()");
    t->join();
    vs_event(EV_JOIN_RET, 0, 0);
    if (vs_cell_get(CELL_CALLS) != 1) vs_fail("after join(): the callable was invoked %ld times, expected exactly once", vs_cell_get(CELL_CALLS));
    if (vs_cell_get(CELL_EXITS) != 1) vs_fail("join() returned before the callable had returned");
    if (!t->isFinished()) vs_fail("isFinished() false after join()");
    if (k == K_RUNNABLE && vs_cell_get(CELL_DESTROYS) != 1) vs_fail("Runnable destroyed %ld times after join(), expected once", vs_cell_get(CELL_DESTROYS));
    int n; const vs_ev *ev = vs_log(&n); int exit_at = -1;
    for (int i = 0; i < n; i++) { if (ev[i].kind == EV_CALL_EXIT) exit_at = i; if (ev[i].kind == EV_RUN_DESTROY && exit_at < 0) vs_fail("Runnable destroyed before run() returned"); }
}

std::string ev_name(const vs_ev &e) {
    char b[96];
    switch (e.kind) {
    case EV_CALL: snprintf(b, sizeof b, "callable invoked (arg %d)", e.a); return b;
    case EV_CALL_EXIT: return "callable returned";
    case EV_START_RET: return "start() returned to the starter";
    case EV_OBS: snprintf(b, sizeof b, "starter observes isFinished() == %ld", (long)e.b); return b;
    case EV_JOIN_RET: return "join() returned";
    case EV_RUN_DESTROY: return "Runnable destroyed";
    }
    return "";
}

bool provider(const std::string &prop, const std::string &tier, const std::string &flavour, VSuite &suite) {
    if (prop != "C20") return false;
    (void)tier;
    suite.event_name = ev_name;
    if (flavour == "tsan") {
        suite.rule = "every schedule of the starting thread and the started thread, executed under ThreadSanitizer with an uninstrumented scheduler: a starter that has observed isFinished() == true or isRunning() == false reads the plain data the callable wrote (and the "
                     "Runnable's destructor wrote) without joining first; any data-race report is a violation - the completion flag must order the callable before the observer";
        suite.assumptions = {"ThreadSanitizer's happens-before model of the C++ memory orders (a relaxed load of the flag does not order anything)"};
        suite.relevant = [](int o, const std::string &, const std::string &) { return o == VS_OUT_RACE || o == VS_OUT_ORACLE || o == VS_OUT_CRASH; };
        for (bool r : {false, true}) { VProgram p; p.name = r ? "flag-orders-runnable" : "flag-orders-fnptr"; p.describe = std::string("start(") + (r ? "Runnable*" : "function pointer") + "); the starter polls isFinished()/isRunning() and reads the result without join()"; p.bound = 4; p.unlock_points = true; p.body = [r] { run_plain(r); }; suite.programs.push_back(std::move(p)); }
        return true;
    }
    suite.rule = "every schedule (all of them: the bound exceeds the number of possible preemptions) of the starting thread and the started thread, for each callable kind; "
                 "the starter returns from start(), overwrites its dead stack frames, observes isFinished() twice and joins; non-trivial = some thread blocked";
    suite.assumptions = {"arguments passed to start() are lvalues that outlive the thread (as the property states)", "sequential consistency at scheduling-point granularity"};
    struct { Kind k; const char *name, *what; } kinds[] = {
        {K_FN0, "fnptr-0args", "function pointer, no arguments"}, {K_FN2, "fnptr-2args", "function pointer, (int&, std::string&) lvalue arguments"},
        {K_SMALL0, "small-closure-0args", "16-byte functor with a liveness canary"}, {K_SMALL2, "small-closure-2args", "16-byte functor with (int&, std::string&) lvalue arguments"},
        {K_LARGE0, "large-closure-0args", "functor with 256 captured bytes"}, {K_LAMBDA, "lambda-closure", "lambda capturing a canary object by value"},
        {K_RUNNABLE, "runnable", "start(Runnable*)"}, {K_CTOR_SMALL, "ctor-small-closure", "Thread(callable) constructor"},
        {K_SELFQ, "self-query", "a lambda that asks its own Thread object isFinished()/isRunning() on entry"}, {K_DETACH, "detached", "16-byte functor; the starter detaches the std::thread instead of joining and keeps observing isFinished()"},
        {K_STRCAP, "string-closure+nothread", "a closure capturing a std::string and a std::vector by value; the creation of the thread may fail once with EAGAIN (costs 1), start() then throws and the starter calls it again"}};
    for (auto &k : kinds) {
        VProgram p; p.name = k.name; p.describe = std::string("Thread::start with ") + k.what; p.bound = 4; p.unlock_points = true;
        Kind kk = k.k; p.body = [kk] { run(kk); };
        if (kk == K_STRCAP) p.create_faults = 1;
        suite.programs.push_back(std::move(p));
    }
    return true;
}
VX_REGISTER(provider);
}  // namespace
