#!/usr/bin/env python3
"""Regenerates /verif/MANIFEST.json from tools/checks.py (CHECKS + META) and validates it."""
import json, os, sys
sys.path.insert(0, os.path.dirname(os.path.abspath(__file__)))
from checks import CHECKS, META, ENGINES
V = os.path.dirname(os.path.dirname(os.path.abspath(__file__)))
props = [json.loads(l) for l in open(os.path.join(V, "properties.jsonl"))]
checks, na = [], []
for p in props:
    pid = p["id"]
    if pid in CHECKS and pid in META:
        m = META[pid]
        checks.append({
            "property_id": pid,
            "quick_cmd": "./check %s --tier quick" % pid,
            "thorough_cmd": "./check %s --tier thorough" % pid,
            "evidence_file": "evidence/%s.json" % pid,
            "replay_cmd_template": "./check %s --replay {path}" % pid,
            "engine": m["engine"],
            "level_claimed": {"category": CHECKS[pid]["level"], "text": m["text"], "design_ref": m["design_ref"]},
            "level_note": m["note"],
            "technique": m["technique"],
        })
    else:
        na.append({"property_id": pid, "reason": META.get(pid, {}).get("na_reason", "check not built yet (work in progress)")})
hooks = json.load(open(os.path.join(V, "tools", "hooks.json")))
man = {"version": 1, "setup_cmd": "./check --build-all", "hooks": hooks, "engines": ENGINES, "checks": checks, "not_applicable": na,
       "notes": "All checks are exhaustive bounded explorations (model checking family); see DESIGN.md. Known findings: known_findings.txt."}
json.dump(man, open(os.path.join(V, "MANIFEST.json"), "w"), indent=1)
try:
    import jsonschema
    jsonschema.validate(man, json.load(open("/root/.vp/MANIFEST.schema.json")))
    print("MANIFEST.json valid:", len(checks), "checks,", len(na), "not applicable")
except ImportError:
    print("MANIFEST.json written (jsonschema not available for validation):", len(checks), "checks")
