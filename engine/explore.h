// explore — coordinator and worker loop of the stateless schedule explorer (engine E1).
#ifndef EXPLORE_H
#define EXPLORE_H
#include <functional>
#include <string>
#include <vector>
#include "vsched.h"

struct VProgram {
    std::string name;              // unique within the suite
    std::string describe;          // what the threads do, for evidence and replay files
    int bound = 2;                 // preemption bound to complete (bounds 0..bound are run in turn)
    bool unlock_points = false;    // extra scheduling point after every unlock
    int horizon = 20000;
    bool single_schedule = false;  // only the default schedule is executed (a program too large to enumerate: one run, reported as such, never counted as exhaustive)
    bool stateful = false;         // explore ALL schedules (no preemption bound), pruned at states that were reached before; needs a complete state_cb (and park_cb for waiter-local state)
    bool stateful_audit = false;   // audit: same search without cutting off at visited states (every schedule is executed); must reach exactly the same set of states
    void (*park_cb)(int tid) = nullptr;
    int create_faults = 0;         // thread-creation failures (EAGAIN) that may be injected per execution (each costs 1 from the bound)
    int spurious = 0;              // spurious condition-variable wake-ups that may be generated per execution (each costs 1 from the bound)
    std::function<void()> body;    // runs as controlled thread 0; creates the object under test and the threads
    std::function<void()> post;    // optional: runs after the execution, outside the scheduler
    uint64_t (*state_cb)() = nullptr;
};

struct VSuite {
    std::string property;
    std::string rule;                       // how programs/schedules are enumerated, what counts as non-trivial
    std::vector<std::string> assumptions;
    std::vector<VProgram> programs;
    std::function<std::string(const vs_ev&)> event_name;   // optional pretty-printer for harness events
    // which abnormal outcomes belong to THIS property (others are counted as foreign and exploration continues)
    std::function<bool(int outcome, const std::string &msg, const std::string &stderr_tail)> relevant;
};

// Harness translation units register suite providers; a provider fills `s` and returns true if it serves the property.
typedef bool (*VxProvider)(const std::string &property, const std::string &tier, const std::string &flavour, VSuite &s);
struct VxRegistrar { explicit VxRegistrar(VxProvider p); };
#define VX_REGISTER(fn) static VxRegistrar vx_registrar_##fn(fn)


// oracle failure outside the scheduler (post checks); inside use vs_fail
[[noreturn]] void vx_fail(const char *fmt, ...) __attribute__((format(printf, 1, 2)));

#endif
