#!/usr/bin/env python3
"""Detection demonstration: for every patch in selftest/index.json
   1. (phase 'baseline') build the patched copy with cmake and run the repository's own 60 tests - they must still pass;
   2. (phase 'checks') run the expected quick checks against the patched copy - each must report a VIOLATION.
Scratch copies live under /tmp and are removed.  Results: selftest/RESULTS.json and selftest/RESULTS.md.
usage: tools/selftest.py [--baseline] [--checks] [--only name,name] [--all-checks]"""
import concurrent.futures as cf, json, os, re, shutil, subprocess, sys, tempfile, time
V = os.path.dirname(os.path.dirname(os.path.abspath(__file__)))
idx = json.load(open(V + "/selftest/index.json"))
args = sys.argv[1:]
only = None
if "--only" in args:
    only = set(args[args.index("--only") + 1].split(","))
res_path = V + "/selftest/RESULTS.json"
results = json.load(open(res_path)) if os.path.exists(res_path) else {}

def scratch(name):
    d = tempfile.mkdtemp(prefix="tulz-mut-%s-" % name[:20], dir="/tmp")
    subprocess.run(["rsync", "-a", "--exclude", "_build", "--exclude", ".git", "/repo/", d + "/"], check=True)
    r = subprocess.run(["patch", "-p1", "--quiet", "-i", "%s/selftest/%s.diff" % (V, name)], cwd=d)
    if r.returncode != 0:
        shutil.rmtree(d); return None
    return d

def baseline(m):
    d = scratch(m["name"])
    if not d: return m["name"], "PATCH-FAILED"
    try:
        r = subprocess.run([V + "/tools/baseline.sh", d], stdout=subprocess.PIPE, stderr=subprocess.STDOUT, text=True)
        last = [l for l in r.stdout.strip().split("\n") if l.startswith("BASELINE")]
        return m["name"], ("pass" if r.returncode == 0 else "FAIL") + " " + (last[-1] if last else r.stdout[-200:])
    finally:
        shutil.rmtree(d, ignore_errors=True)

def checks(m, all_checks=False):
    d = scratch(m["name"])
    if not d: return {"error": "PATCH-FAILED"}
    out = {}
    try:
        ids = m["expected"]
        for pid in ids:
            env = dict(os.environ, VERIF_REPO=d, VERIF_EVIDENCE_DIR=d + "/.evidence")
            t0 = time.time()
            r = subprocess.run([V + "/check", pid, "--tier", "quick"], stdout=subprocess.PIPE, stderr=subprocess.DEVNULL, text=True, env=env, cwd=V)
            viol = [l for l in r.stdout.split("\n") if l.startswith("VIOLATION")]
            first = ""
            lines = r.stdout.split("\n")
            for i, l in enumerate(lines):
                if l.startswith("VIOLATION") and i + 1 < len(lines): first = lines[i + 1].strip()[:260]; break
            out[pid] = {"detected": r.returncode == 1 and bool(viol), "rc": r.returncode, "violations": len(viol), "first": first, "secs": round(time.time() - t0, 1)}
    finally:
        shutil.rmtree(d, ignore_errors=True)
    return out

todo = [m for m in idx if not only or m["name"] in only]
if "--baseline" in args:
    with cf.ThreadPoolExecutor(max_workers=4) as ex:
        for name, r in ex.map(baseline, todo):
            results.setdefault(name, {})["baseline"] = r
            print("baseline", name, r, flush=True)
            json.dump(results, open(res_path, "w"), indent=1)
if "--checks" in args:
    for m in todo:
        r = checks(m)
        results.setdefault(m["name"], {})["checks"] = r
        print(m["name"], {k: ("DETECTED" if v.get("detected") else "MISSED") for k, v in r.items() if isinstance(v, dict)}, flush=True)
        json.dump(results, open(res_path, "w"), indent=1)
# markdown summary
with open(V + "/selftest/RESULTS.md", "w") as f:
    f.write("| change | what it does | repository tests | checks (quick tier) |\n|---|---|---|---|\n")
    for m in idx:
        r = results.get(m["name"], {})
        cs = "; ".join("%s: %s" % (k, "**detected**" if v.get("detected") else "MISSED") for k, v in r.get("checks", {}).items() if isinstance(v, dict))
        f.write("| %s | %s (%s) | %s | %s |\n" % (m["name"], m["why"] or "-", m["file"], r.get("baseline", "not run").split(" BASELINE")[0], cs or "not run"))
