// explore.cc — coordinator + worker processes of the stateless, preemption-bounded schedule explorer.
// Compiled without sanitizer instrumentation in every flavour (the harness and tulz are instrumented).
#include "explore.h"

#include <algorithm>
#include <cerrno>
#include <csignal>
#include <cstdarg>
#include <cstdio>
#include <cstdlib>
#include <cstring>
#include <deque>
#include <fcntl.h>
#include <map>
#include <poll.h>
#include <dirent.h>
#include <sched.h>
#include <set>
#include <sstream>
#include <sys/mman.h>
#include <sys/stat.h>
#include <sys/wait.h>
#include <time.h>
#include <unistd.h>

// ---------------------------------------------------------------- shared memory layout
struct TaskShm {
    int prog, bound, mode, floor, prefix_len, exp_len;
    int noprune_first;          // stateful exploration: the first execution of this task is a re-run of one that was interrupted after it had entered its states: do not look them up
    uint8_t prefix[VS_MAXP], exp_nalt[VS_MAXP];
    uint32_t exp_sig[VS_MAXP];
};
struct Counters { uint64_t executions, steps, contended, parked, new_states, new_outcomes, max_points, max_threads, pruned, visited, table_full; };
// Work donated by a busy worker: the untried alternatives at one level of its current choice vector (the shallowest level it could still
// backtrack to).  The worker raises its own floor above that level and carries on; the coordinator turns every alternative into a subtree task.
struct Donation { int level, nalts; uint8_t alts[256]; uint8_t choice[VS_MAXP], nalt[VS_MAXP]; uint32_t sig[VS_MAXP]; };
struct WorkerShm {
    TaskShm task;
    Counters cnt;
    volatile int cancel;
    volatile int throttle;           // coordinator -> worker: kernel memory is piling up (see slab_kb), pause between executions
    volatile int split_request;      // coordinator -> worker: other workers are idle, donate part of your subtree
    volatile int donation_pending;   // worker -> coordinator: `donation` is filled in
    volatile int cur_floor;          // the level below which this worker will not backtrack (task floor, raised by donations)
    Donation donation;
    volatile int race_seen;
    char race_msg[512];
    vs_slot slot;
};
enum { MODE_SINGLE = 0, MODE_SUBTREE = 1 };

static const uint64_t STATE_BITS = 24, OUTCOME_BITS = 20;
static uint64_t *g_state_table, *g_outcome_table, *g_prune_table;
static const uint64_t PRUNE_BITS = 25;
static WorkerShm *g_w;          // array [jobs + 1]; the last one is used by run_once children
static VSuite g_suite;
static std::string g_logdir;
static int g_self_worker = -1;  // index of this process's WorkerShm (workers only)
static uint64_t g_recycle_after = 400000;

static double now_s() { timespec ts; clock_gettime(CLOCK_MONOTONIC, &ts); return ts.tv_sec + ts.tv_nsec * 1e-9; }

static std::vector<VxProvider> &providers() { static std::vector<VxProvider> v; return v; }
VxRegistrar::VxRegistrar(VxProvider p) { providers().push_back(p); }
static VSuite vx_suite(const std::string &property, const std::string &tier, const std::string &flavour) {
    VSuite s; s.property = property; bool any = false;
    for (auto p : providers()) any |= p(property, tier, flavour, s);
    if (!any) { fprintf(stderr, "no harness linked into this binary serves property %s\n", property.c_str()); exit(2); }
    return s;
}

void vx_fail(const char *fmt, ...) {
    if (g_self_worker >= 0) {
        vs_slot &s = g_w[g_self_worker].slot;
        va_list ap; va_start(ap, fmt);
        vsnprintf(s.msg, sizeof s.msg, fmt, ap);
        va_end(ap);
        __atomic_store_n(&s.outcome, VS_OUT_ORACLE, __ATOMIC_SEQ_CST);
    }
    _exit(40 + VS_OUT_ORACLE);
}

// ThreadSanitizer calls this for every report (tsan flavour only).
extern "C" void __tsan_on_report(void *) {
    if (g_self_worker >= 0) g_w[g_self_worker].race_seen = 1;
}

// ---------------------------------------------------------------- choice-vector arithmetic
static int alt_cost(uint8_t flags, int nalt, int alt) {
    int ntimeout = flags >> 4, nnormal = nalt - ntimeout, cost = 0;
    if (alt != 0 && (flags & VS_F_RUNNING_ENABLED)) cost = 1;
    if (ntimeout && nnormal > 0 && alt >= nnormal) cost = 1;
    return cost;
}

struct Prefix { std::vector<uint8_t> choice, nalt; std::vector<uint32_t> sig; };

// Stateful exploration: choice points at or after a state that had been visited before offer no alternatives (their subtree belongs to the execution that reached the state first).
static inline int branch_n(const vs_record &r) { return r.pruned_at < r.n ? r.pruned_at : r.n; }
static const int UNBOUNDED = 1000000;

// Next choice vector in depth-first order below `floor` within `bound`; false when the subtree is exhausted.
static bool next_prefix(const vs_record &r, int floor, int bound, Prefix &out) {
    int n = branch_n(r);
    std::vector<int> cum(n + 1, 0);
    for (int j = 0; j < n; j++) cum[j + 1] = cum[j] + alt_cost(r.flags[j], r.nalt[j], r.choice[j]);
    for (int i = n - 1; i >= floor; i--) {
        for (int alt = r.choice[i] + 1; alt < r.nalt[i]; alt++) {
            if (cum[i] + alt_cost(r.flags[i], r.nalt[i], alt) <= bound) {
                out.choice.assign(r.choice, r.choice + i); out.choice.push_back((uint8_t)alt);
                out.nalt.assign(r.nalt, r.nalt + i + 1);
                out.sig.assign(r.sig, r.sig + i + 1);
                return true;
            }
        }
    }
    return false;
}

static uint64_t table_insert(uint64_t *tab, uint64_t bits, uint64_t h) {
    if (!h) h = 1;
    uint64_t mask = (1ULL << bits) - 1, i = h & mask;
    for (int probe = 0; probe < 128; probe++, i = (i + 1) & mask) {
        uint64_t cur = __atomic_load_n(&tab[i], __ATOMIC_RELAXED);
        if (cur == h) return 0;
        if (cur == 0) {
            uint64_t exp = 0;
            if (__atomic_compare_exchange_n(&tab[i], &exp, h, 0, __ATOMIC_RELAXED, __ATOMIC_RELAXED)) return 1;
            if (exp == h) return 0;
        }
    }
    return 0;
}

static uint64_t log_hash(const vs_slot &s) {
    uint64_t h = 77;
    for (int i = 0; i < s.nev; i++) {
        const vs_ev &e = s.ev[i];
        h = vs_mix(h, ((uint64_t)(uint16_t)e.kind << 48) ^ ((uint64_t)(uint16_t)e.tid << 32) ^ (uint32_t)e.a);
        h = vs_mix(h, (uint64_t)e.b);
    }
    return h;
}

// ---------------------------------------------------------------- one execution (worker side)
static void run_execution(WorkerShm &w, const VProgram &p, const Prefix &pre, bool prune = false, int prog_index = 0) {
    vs_options opt{};
    opt.unlock_points = p.unlock_points; opt.spurious = p.spurious; opt.create_faults = p.create_faults;
    opt.horizon = p.horizon;
    opt.prefix = pre.choice.data(); opt.prefix_len = (int)pre.choice.size();
    opt.exp_nalt = pre.nalt.empty() ? nullptr : pre.nalt.data();
    opt.exp_sig = pre.sig.empty() ? nullptr : pre.sig.data();
    opt.exp_len = (int)std::min(pre.nalt.size(), pre.sig.size());
    opt.state_table = g_state_table; opt.state_mask = (1ULL << STATE_BITS) - 1;
    opt.state_cb = p.state_cb;
    opt.park_cb = p.park_cb;
    if (prune) { opt.prune_table = g_prune_table; opt.prune_mask = (1ULL << PRUNE_BITS) - 1; opt.prune_salt = 0x5bd1e995ULL * (uint64_t)(prog_index + 1); opt.prune_audit = p.stateful_audit; }
    w.race_seen = 0;
    vs_begin(&w.slot, &opt);
    try {
        p.body();
    } catch (const std::exception &e) {
        vs_fail("unexpected exception escaped the program body: %s", e.what());
    } catch (...) {
        vs_fail("unexpected exception escaped the program body");
    }
    vs_end();
    if (p.post) p.post();
    if (w.race_seen) {
        snprintf(w.slot.msg, sizeof w.slot.msg, "ThreadSanitizer reported a data race during this schedule");
        __atomic_store_n(&w.slot.outcome, VS_OUT_RACE, __ATOMIC_SEQ_CST);
        _exit(40 + VS_OUT_RACE);
    }
    w.slot.outcome = VS_OUT_OK;
    w.cnt.executions++;
    w.cnt.steps += w.slot.steps;
    w.cnt.parked += w.slot.parked_any ? 1 : 0;
    bool contended = w.slot.parked_any;
    for (int i = 0; i < w.slot.rec.n && !contended; i++) if (!(w.slot.rec.flags[i] & VS_F_RUNNING_ENABLED)) contended = true;
    w.cnt.contended += contended ? 1 : 0;
    w.cnt.new_states += vs_new_states();
    if (prune) { w.cnt.visited += w.slot.rec.new_states; if (w.slot.rec.pruned_at <= w.slot.rec.n) w.cnt.pruned++; if (w.slot.rec.table_full) w.cnt.table_full++; }
    w.cnt.new_outcomes += table_insert(g_outcome_table, OUTCOME_BITS, log_hash(w.slot));
    if ((uint64_t)w.slot.rec.n > w.cnt.max_points) w.cnt.max_points = w.slot.rec.n;
    if ((uint64_t)w.slot.nthreads > w.cnt.max_threads) w.cnt.max_threads = w.slot.nthreads;
}

static void redirect_stderr(int k) {
    std::string path = g_logdir + "/w" + std::to_string(k) + ".err";
    int fd = open(path.c_str(), O_WRONLY | O_CREAT | O_TRUNC, 0644);
    if (fd >= 0) { dup2(fd, 2); close(fd); }
}

static void worker_main(int k, int cmdfd, int donefd) {
    g_self_worker = k;
    cpu_set_t set; CPU_ZERO(&set);
    long ncpu = sysconf(_SC_NPROCESSORS_ONLN);
    CPU_SET(k % (ncpu > 0 ? ncpu : 1), &set);
    sched_setaffinity(0, sizeof set, &set);
    redirect_stderr(k);
    WorkerShm &w = g_w[k];
    for (;;) {
        char c;
        ssize_t r = read(cmdfd, &c, 1);
        if (r != 1) _exit(0);
        const TaskShm &t = w.task;
        const VProgram &p = g_suite.programs[t.prog];
        Prefix pre;
        pre.choice.assign(t.prefix, t.prefix + t.prefix_len);
        pre.nalt.assign(t.exp_nalt, t.exp_nalt + t.exp_len);
        pre.sig.assign(t.exp_sig, t.exp_sig + t.exp_len);
        int floor = t.floor;
        w.cur_floor = floor;
        bool first = true;
        for (;;) {
            while (w.throttle && !w.cancel) usleep(20000);
            run_execution(w, p, pre, p.stateful && t.bound >= UNBOUNDED && !(first && t.noprune_first), t.prog);
            first = false;
            if (t.mode == MODE_SINGLE || w.cancel) break;
            if (w.split_request && !w.donation_pending) {
                // donate the untried alternatives of the shallowest level that still has some
                const vs_record &r = w.slot.rec;
                int cum = 0;
                for (int j = 0; j < floor && j < r.n; j++) cum += alt_cost(r.flags[j], r.nalt[j], r.choice[j]);
                for (int i = floor; i < branch_n(r); i++) {
                    Donation &d = w.donation; d.nalts = 0;
                    for (int alt = r.choice[i] + 1; alt < r.nalt[i]; alt++) if (cum + alt_cost(r.flags[i], r.nalt[i], alt) <= t.bound) d.alts[d.nalts++] = (uint8_t)alt;
                    if (d.nalts) {
                        d.level = i;
                        memcpy(d.choice, r.choice, i); memcpy(d.nalt, r.nalt, i + 1); memcpy(d.sig, r.sig, (i + 1) * sizeof(uint32_t));
                        __atomic_store_n(&w.donation_pending, 1, __ATOMIC_SEQ_CST);     // first the gift, then the raised floor: dying in between duplicates work, never loses it
                        floor = i + 1;
                        __atomic_store_n(&w.cur_floor, floor, __ATOMIC_SEQ_CST);
                        char s = 's';
                        if (write(donefd, &s, 1) != 1) _exit(0);
                        break;
                    }
                    cum += alt_cost(r.flags[i], r.nalt[i], r.choice[i]);
                }
            }
            Prefix nxt;
            if (!next_prefix(w.slot.rec, floor, t.bound, nxt)) break;
            // Sanitizer runtimes keep a record of every thread ever created: a worker retires after a bounded number of executions;
            // the coordinator continues its subtree in a fresh process (exit code 77 + outcome OK = "recycle", not a failure).
            if (w.cnt.executions >= g_recycle_after) _exit(77);
            pre = std::move(nxt);
        }
        c = 'd';
        if (write(donefd, &c, 1) != 1) _exit(0);
    }
}

// ---------------------------------------------------------------- coordinator
struct Task { int prog, bound, mode, floor; Prefix pre; int noprune_first = 0; };

struct Worker { pid_t pid = -1; int cmdfd = -1, donefd = -1; bool busy = false; Task task; uint64_t last_hb = 0; double last_hb_t = 0, stall_t0 = 0, stall_sample_t = 0; long stall_cpu0 = -1; int stall_runnable = 0; Counters seen{}; };

// What a worker without a heartbeat is doing, read from /proc: CPU ticks used by the process and whether any of its threads is runnable.  A worker that is blocked in something
// the scheduler does not model sleeps in all its threads and uses no CPU; a worker that is merely starved by other load on the machine has a runnable thread (and is never called a hang).
// Every execution creates and retires real threads.  The kernel frees their task structures lazily (RCU); when all CPUs are kept busy by several explorations at once the
// backlog was seen to grow to tens of gigabytes of slab memory until the OOM killer struck.  The coordinator watches the slab size and pauses its workers while it is high.
static bool g_throttled = false; static uint64_t g_throttle_events = 0;
static long slab_kb() {
    FILE *f = fopen("/proc/meminfo", "r"); if (!f) return -1;
    char line[256]; long v = -1;
    while (fgets(line, sizeof line, f)) if (sscanf(line, "Slab: %ld kB", &v) == 1) break;
    fclose(f);
    return v;
}

static bool proc_sample(pid_t pid, long &cpu_ticks, bool &any_runnable) {
    cpu_ticks = 0; any_runnable = false;
    char path[64]; snprintf(path, sizeof path, "/proc/%d/task", (int)pid);
    DIR *d = opendir(path); if (!d) return false;
    bool ok = false;
    while (dirent *e = readdir(d)) {
        if (e->d_name[0] == '.') continue;
        char sp[320]; snprintf(sp, sizeof sp, "/proc/%d/task/%s/stat", (int)pid, e->d_name);
        FILE *f = fopen(sp, "r"); if (!f) continue;
        char buf[1024]; size_t n = fread(buf, 1, sizeof buf - 1, f); fclose(f); buf[n] = 0;
        char *rp = strrchr(buf, ')'); if (!rp) continue;
        char state = 0; long ut = 0, st = 0;
        // after ") ": state ppid pgrp session tty tpgid flags minflt cminflt majflt cmajflt utime stime
        if (sscanf(rp + 2, "%c %*d %*d %*d %*d %*d %*u %*u %*u %*u %*u %ld %ld", &state, &ut, &st) == 3) { ok = true; cpu_ticks += ut + st; if (state == 'R' || state == 'D') any_runnable = true; }
    }
    closedir(d);
    return ok;
}

struct Violation {
    std::string program; int prog; int bound; int outcome; std::string msg; std::vector<int> schedule;
    std::vector<vs_ev> events; std::string stderr_tail; int term_signal = 0; std::string replay_path; bool confirmed = false;
};

struct ProgStats {
    uint64_t schedules = 0, steps = 0, contended = 0, parked = 0; int completed_bound = -1; bool capped = false;
    uint64_t visited_states = 0, pruned_executions = 0, table_full = 0; bool stateful_done = false;
    std::vector<uint64_t> per_bound, per_bound_contended; uint64_t max_points = 0, max_threads = 0; std::string root_schedule, last_schedule;
};

static std::vector<Worker> g_workers;
static int g_jobs = 16;
static double g_deadline_at = 0;
static bool g_deadline_hit = false;
static double g_hang_limit = 30;

static void spawn_worker(int k) {
    int cmd[2], done[2];
    if (pipe(cmd) || pipe(done)) { perror("pipe"); exit(2); }
    memset(&g_w[k].cnt, 0, sizeof(Counters));
    g_w[k].cancel = 0; g_w[k].split_request = 0; g_w[k].donation_pending = 0; g_w[k].throttle = g_throttled ? 1 : 0;
    pid_t pid = fork();
    if (pid < 0) { perror("fork"); exit(2); }
    if (pid == 0) {
        for (auto &o : g_workers) { if (o.cmdfd >= 0) close(o.cmdfd); if (o.donefd >= 0) close(o.donefd); }
        close(cmd[1]); close(done[0]);
        worker_main(k, cmd[0], done[1]);
        _exit(0);
    }
    close(cmd[0]); close(done[1]);
    Worker &w = g_workers[k];
    w.pid = pid; w.cmdfd = cmd[1]; w.donefd = done[0]; w.busy = false; w.seen = Counters{};
}

static void kill_worker(int k) {
    Worker &w = g_workers[k];
    if (w.pid > 0) { kill(w.pid, SIGKILL); int st; waitpid(w.pid, &st, 0); }
    if (w.cmdfd >= 0) close(w.cmdfd);
    if (w.donefd >= 0) close(w.donefd);
    w.pid = -1; w.cmdfd = w.donefd = -1; w.busy = false;
}

static std::string read_tail(const std::string &path, size_t maxb) {
    std::string out;
    FILE *f = fopen(path.c_str(), "r");
    if (!f) return out;
    fseek(f, 0, SEEK_END); long sz = ftell(f);
    long from = sz > (long)maxb ? sz - (long)maxb : 0;
    fseek(f, from, SEEK_SET);
    out.resize(sz - from);
    size_t n = fread(out.data(), 1, out.size(), f); out.resize(n);
    fclose(f);
    return out;
}

static const char *outcome_name(int o) {
    switch (o) {
    case VS_OUT_OK: return "ok"; case VS_OUT_DEADLOCK: return "deadlock"; case VS_OUT_ORACLE: return "oracle";
    case VS_OUT_NONDET: return "nondeterminism"; case VS_OUT_HORIZON: return "horizon"; case VS_OUT_RACE: return "data-race";
    case VS_OUT_CRASH: return "crash"; default: return "running";
    }
}

static void send_task(int k, const Task &t) {
    Worker &w = g_workers[k];
    TaskShm &s = g_w[k].task;
    s.prog = t.prog; s.bound = t.bound; s.mode = t.mode; s.floor = t.floor; s.noprune_first = t.noprune_first;
    s.prefix_len = (int)t.pre.choice.size(); s.exp_len = (int)std::min(t.pre.nalt.size(), t.pre.sig.size());
    memcpy(s.prefix, t.pre.choice.data(), t.pre.choice.size());
    memcpy(s.exp_nalt, t.pre.nalt.data(), s.exp_len);
    memcpy(s.exp_sig, t.pre.sig.data(), s.exp_len * sizeof(uint32_t));
    g_w[k].cancel = 0; g_w[k].split_request = 0; g_w[k].cur_floor = t.floor;
    w.task = t; w.busy = true; w.last_hb = g_w[k].slot.heartbeat; w.last_hb_t = now_s(); w.stall_cpu0 = -1;
    char c = 'g';
    if (write(w.cmdfd, &c, 1) != 1) { perror("write cmd"); }
}

static std::string sched_str(const uint8_t *c, int n) {
    std::string s;
    for (int i = 0; i < n; i++) { if (i) s += ','; s += std::to_string((int)c[i]); }
    return s;
}

struct ExecResult { int outcome; std::string msg; std::vector<int> schedule; std::vector<vs_ev> events; uint64_t hash; int term_signal; std::string stderr_tail; std::vector<uint8_t> nalt, flags; };

// Run exactly one execution in a fresh child process and wait for it.
static ExecResult run_once(int prog, const std::vector<int> &schedule, double limit_s) {
    int k = g_jobs;                  // dedicated slot
    WorkerShm &w = g_w[k];
    memset(&w.cnt, 0, sizeof w.cnt);
    w.slot.outcome = VS_OUT_RUNNING; w.slot.rec.n = 0; w.slot.nev = 0; w.slot.msg[0] = 0; w.race_seen = 0;
    fflush(stdout); fflush(stderr);
    pid_t pid = fork();
    if (pid == 0) {
        g_self_worker = k;
        redirect_stderr(k);
        Prefix pre; for (int c : schedule) pre.choice.push_back((uint8_t)c);
        run_execution(w, g_suite.programs[prog], pre);
        _exit(0);
    }
    int st = 0; double t0 = now_s(); bool killed = false;
    for (;;) {
        pid_t r = waitpid(pid, &st, WNOHANG);
        if (r == pid) break;
        if (now_s() - t0 > limit_s) { kill(pid, SIGKILL); waitpid(pid, &st, 0); killed = true; break; }
        usleep(2000);
    }
    ExecResult e;
    e.outcome = w.slot.outcome; e.msg = w.slot.msg; e.term_signal = WIFSIGNALED(st) ? WTERMSIG(st) : 0;
    if (e.outcome == VS_OUT_RUNNING) {
        e.outcome = killed ? VS_OUT_HORIZON : VS_OUT_CRASH;
        if (killed) e.msg = "execution did not finish within the time limit (blocking the scheduler does not model?)";
        else if (WIFSIGNALED(st)) e.msg = "process killed by signal " + std::to_string(WTERMSIG(st));
        else e.msg = "process exited with status " + std::to_string(WEXITSTATUS(st)) + " in the middle of an execution";
    }
    if (w.race_seen && e.outcome != VS_OUT_RACE) { e.msg = "ThreadSanitizer reported a data race during this schedule (the execution then ended with: " + e.msg + ")"; e.outcome = VS_OUT_RACE; }
    for (int i = 0; i < w.slot.rec.n; i++) e.schedule.push_back(w.slot.rec.choice[i]);
    e.nalt.assign(w.slot.rec.nalt, w.slot.rec.nalt + w.slot.rec.n);
    e.flags.assign(w.slot.rec.flags, w.slot.rec.flags + w.slot.rec.n);
    e.events.assign(w.slot.ev, w.slot.ev + w.slot.nev);
    e.hash = log_hash(w.slot);
    e.stderr_tail = read_tail(g_logdir + "/w" + std::to_string(k) + ".err", 6000);
    return e;
}

static std::string jesc(const std::string &s) {
    std::string o;
    for (unsigned char c : s) {
        if (c == '"' || c == '\\') { o += '\\'; o += (char)c; }
        else if (c == '\n') o += "\\n"; else if (c == '\t') o += "\\t"; else if (c == '\r') o += "\\r";
        else if (c < 0x20 || c >= 0x7f) { char b[8]; snprintf(b, sizeof b, "\\u%04x", c); o += b; }
        else o += (char)c;
    }
    return o;
}

static std::string event_str(const vs_ev &e) {
    if (g_suite.event_name && e.kind >= 100) { std::string s = g_suite.event_name(e); if (!s.empty()) return "t" + std::to_string(e.tid) + " " + s; }
    const char *n = "?";
    switch (e.kind) {
    case VS_EV_THREAD_START: n = "thread-start"; break; case VS_EV_THREAD_FINISH: n = "thread-finish"; break;
    case VS_EV_PARK: n = "parks-on-condvar"; break; case VS_EV_UNPARK: n = "resumes-from-condvar"; break;
    case VS_EV_CREATE: n = "creates-thread"; break; case VS_EV_JOINED: n = "joined-thread"; break;
    case VS_EV_SIGNAL: n = "notify_one(cv,woken)"; break; case VS_EV_BROADCAST: n = "notify_all(cv,waiters)"; break;
    case VS_EV_TIMEOUT: n = "timed-wait-expires"; break;
    case VS_EV_CREATE_FAILED: n = "thread-creation-fails(EAGAIN)"; break;
    }
    char b[128]; snprintf(b, sizeof b, "t%d %s a=%d b=%ld kind=%d", e.tid, n, e.a, (long)e.b, e.kind);
    return b;
}

static std::string g_property, g_tier, g_flavour, g_replay_dir;

static std::string write_replay(Violation &v) {
    uint64_t h = 5; for (int c : v.schedule) h = vs_mix(h, c);
    char name[512];
    snprintf(name, sizeof name, "%s/%s-%s-%s-b%d-%s-%08x.json", g_replay_dir.c_str(), g_property.c_str(), g_flavour.c_str(), v.program.c_str(), v.bound,
             outcome_name(v.outcome), (unsigned)(h & 0xffffffff));
    FILE *f = fopen(name, "w");
    if (!f) return "";
    const VProgram &p = g_suite.programs[v.prog];
    fprintf(f, "{\n \"property\": \"%s\",\n \"engine\": \"vsched\",\n \"flavour\": \"%s\",\n \"tier\": \"%s\",\n \"program\": \"%s\",\n \"describe\": \"%s\",\n",
            g_property.c_str(), g_flavour.c_str(), g_tier.c_str(), jesc(v.program).c_str(), jesc(p.describe).c_str());
    fprintf(f, " \"bound\": %d,\n \"outcome\": \"%s\",\n \"message\": \"%s\",\n \"term_signal\": %d,\n \"confirmed_by_replay\": %s,\n", v.bound, outcome_name(v.outcome),
            jesc(v.msg).c_str(), v.term_signal, v.confirmed ? "true" : "false");
    fprintf(f, " \"schedule\": [");
    for (size_t i = 0; i < v.schedule.size(); i++) fprintf(f, "%s%d", i ? "," : "", v.schedule[i]);
    fprintf(f, "],\n \"events\": [\n");
    for (size_t i = 0; i < v.events.size(); i++) fprintf(f, "  \"%s\"%s\n", jesc(event_str(v.events[i])).c_str(), i + 1 < v.events.size() ? "," : "");
    fprintf(f, " ],\n \"stderr_tail\": \"%s\"\n}\n", jesc(v.stderr_tail).c_str());
    fclose(f);
    return name;
}

static bool is_violation_outcome(int o) { return o == VS_OUT_DEADLOCK || o == VS_OUT_ORACLE || o == VS_OUT_RACE || o == VS_OUT_CRASH; }

struct RunState {
    std::vector<Violation> violations;
    std::vector<std::string> inconclusive;
    std::map<int, ProgStats> stats;
    uint64_t states = 0, outcomes = 0;
    std::map<std::string, uint64_t> foreign;   // abnormal outcomes that belong to another property
    std::vector<std::string> samples;
};

static void absorb(RunState &rs, int k, int prog) {
    Counters &c = g_w[k].cnt; Counters &s = g_workers[k].seen; ProgStats &ps = rs.stats[prog];
    ps.schedules += c.executions - s.executions; ps.steps += c.steps - s.steps;
    ps.contended += c.contended - s.contended; ps.parked += c.parked - s.parked;
    rs.states += c.new_states - s.new_states; rs.outcomes += c.new_outcomes - s.new_outcomes;
    ps.max_points = std::max(ps.max_points, c.max_points); ps.max_threads = std::max(ps.max_threads, c.max_threads);
    ps.visited_states += c.visited - s.visited; ps.pruned_executions += c.pruned - s.pruned; ps.table_full += c.table_full - s.table_full;
    s = c;
}

// Explore one program at one bound. Returns false if a violation was found (exploration of this program stops).
static bool explore(RunState &rs, int prog, int bound, int max_violations) {
    const VProgram &p = g_suite.programs[prog];
    std::deque<Task> tasks;
    tasks.push_back(Task{prog, bound, MODE_SINGLE, 0, Prefix{}});
    int split_depth = bound >= 3 ? 2 : 1;
    ProgStats &ps = rs.stats[prog];
    uint64_t before = ps.schedules, before_c = ps.contended;
    bool stop = false; int found = 0;
    auto ndev = [](const Prefix &pr) { int d = 0; for (auto c : pr.choice) d += c != 0; return d; };

    std::map<std::string, int> hang_retries;
    uint64_t donations = 0;
    auto take_donation = [&](int k) {
        WorkerShm &sh = g_w[k];
        if (!__atomic_load_n(&sh.donation_pending, __ATOMIC_SEQ_CST)) return;
        const Donation &d = sh.donation;
        if (!stop) for (int a = 0; a < d.nalts; a++) {
            Task c; c.prog = prog; c.bound = bound; c.mode = MODE_SUBTREE; c.floor = d.level + 1;
            c.pre.choice.assign(d.choice, d.choice + d.level); c.pre.choice.push_back(d.alts[a]);
            c.pre.nalt.assign(d.nalt, d.nalt + d.level + 1); c.pre.sig.assign(d.sig, d.sig + d.level + 1);
            tasks.push_back(std::move(c));
        }
        donations++;
        __atomic_store_n(&sh.donation_pending, 0, __ATOMIC_SEQ_CST);
    };

    auto handle_death = [&](int k, int st) {
        Worker &w = g_workers[k];
        WorkerShm &sh = g_w[k];
        absorb(rs, k, prog);
        take_donation(k);
        w.task.floor = std::max(w.task.floor, (int)sh.cur_floor);
        if (WIFEXITED(st) && WEXITSTATUS(st) == 77 && sh.slot.outcome == VS_OUT_OK) {      // a retired worker: continue its subtree elsewhere
            Task t = w.task; Prefix nxt;
            bool more = t.mode == MODE_SUBTREE && next_prefix(sh.slot.rec, t.floor, t.bound, nxt);
            close(w.cmdfd); close(w.donefd); w.pid = -1; w.cmdfd = w.donefd = -1; w.busy = false;
            spawn_worker(k);
            if (more && !stop) { Task c{prog, bound, MODE_SUBTREE, t.floor, std::move(nxt)}; tasks.push_front(std::move(c)); }
            return;
        }
        // SIGKILL never comes from the code under test (sanitizers abort, wild accesses fault): it is the environment, e.g. the kernel's OOM killer when several explorations
        // run at once.  The execution in flight is run again in a fresh worker, once per schedule, before the death is taken for a finding.
        if (WIFSIGNALED(st) && WTERMSIG(st) == SIGKILL && (sh.slot.outcome == VS_OUT_RUNNING || sh.slot.outcome == VS_OUT_OK)) {
            const vs_record &rr = sh.slot.rec;
            if (++hang_retries["killed:" + sched_str(rr.choice, rr.n)] < 2) {
                Task t = w.task; t.floor = std::max(t.floor, (int)sh.cur_floor);
                Prefix cur; cur.choice.assign(rr.choice, rr.choice + rr.n); cur.nalt.assign(rr.nalt, rr.nalt + rr.n); cur.sig.assign(rr.sig, rr.sig + rr.n);
                close(w.cmdfd); close(w.donefd); w.pid = -1; w.cmdfd = w.donefd = -1; w.busy = false;
                spawn_worker(k);
                if (!stop) {
                    if (t.mode == MODE_SINGLE) { t.noprune_first = 1; tasks.push_front(t); }
                    else if ((int)cur.choice.size() < t.floor) { Task again = w.task; again.noprune_first = 1; tasks.push_front(again); }
                    else { Task c{prog, bound, MODE_SUBTREE, t.floor, std::move(cur)}; c.noprune_first = 1; tasks.push_front(std::move(c)); }
                }
                return;
            }
        }
        ps.schedules++; ps.steps += sh.slot.steps;           // the execution that died
        int outcome = sh.slot.outcome;
        std::string msg = sh.slot.msg;
        int sig = WIFSIGNALED(st) ? WTERMSIG(st) : 0;
        if (outcome == VS_OUT_RUNNING || outcome == VS_OUT_OK) {
            outcome = VS_OUT_CRASH;
            msg = sig ? "process killed by signal " + std::to_string(sig) : "process exited with status " + std::to_string(WEXITSTATUS(st)) + " in the middle of an execution";
        }
        if (sh.race_seen && outcome != VS_OUT_RACE) {
            // ThreadSanitizer had already reported a race in this execution when it died (an assertion of the code under test firing after the racy accesses, say): the race is the finding
            msg = "ThreadSanitizer reported a data race during this schedule (the execution then ended with: " + msg + ")";
            outcome = VS_OUT_RACE;
        }
        Task t = w.task;
        // continuation of the interrupted subtree
        Prefix nxt;
        bool more = t.mode == MODE_SUBTREE && next_prefix(sh.slot.rec, t.floor, t.bound, nxt);
        std::string tail = read_tail(g_logdir + "/w" + std::to_string(k) + ".err", 6000);
        // a memory fault (SIGSEGV, SIGBUS, SIGFPE, SIGILL) in a legal scenario leaves no property standing: it is never "somebody else's" outcome
        // (aborts - assertions of the code under test, sanitizer reports - are attributed by the suite)
        bool hard_fault = outcome == VS_OUT_CRASH && (sig == SIGSEGV || sig == SIGBUS || sig == SIGFPE || sig == SIGILL);
        if (is_violation_outcome(outcome) && g_suite.relevant && !hard_fault && !g_suite.relevant(outcome, msg, tail)) {
            std::string key = std::string(outcome_name(outcome)) + ": " + msg.substr(0, msg.find(';'));
            if (outcome == VS_OUT_CRASH) { size_t a = tail.find("Assertion"); if (a != std::string::npos) key += " " + tail.substr(a, tail.find('\n', a) - a); }
            rs.foreign[key]++;
        } else if (is_violation_outcome(outcome) && found >= max_violations) {
            // further deaths of workers that were already running when the first violation of this program was recorded
        } else if (is_violation_outcome(outcome)) {
            Violation v; v.program = p.name; v.prog = prog; v.bound = bound; v.outcome = outcome; v.msg = msg; v.term_signal = sig;
            for (int i = 0; i < sh.slot.rec.n; i++) v.schedule.push_back(sh.slot.rec.choice[i]);
            v.events.assign(sh.slot.ev, sh.slot.ev + sh.slot.nev);
            v.stderr_tail = tail;
            rs.violations.push_back(v);
            if (++found >= max_violations) stop = true;
        } else {
            char b[256]; snprintf(b, sizeof b, "%s bound=%d schedule=%s: %s: ", p.name.c_str(), bound, sched_str(sh.slot.rec.choice, sh.slot.rec.n).c_str(), outcome_name(outcome));
            rs.inconclusive.push_back(std::string(b) + msg);
            stop = true;
        }
        close(w.cmdfd); close(w.donefd); w.pid = -1; w.cmdfd = w.donefd = -1; w.busy = false;
        spawn_worker(k);
        if (more && !stop) { Task c{prog, bound, MODE_SUBTREE, t.floor, std::move(nxt)}; tasks.push_front(std::move(c)); }
    };

    for (;;) {
        int busy = 0;
        for (int k = 0; k < g_jobs; k++) {
            Worker &w = g_workers[k];
            if (w.busy) { busy++; continue; }
            if (stop || tasks.empty()) continue;
            if (g_deadline_at && now_s() > g_deadline_at) { g_deadline_hit = true; stop = true; continue; }
            Task t = std::move(tasks.front()); tasks.pop_front();
            send_task(k, t); busy++;
        }
        if (busy == 0) break;
        {   // idle workers and nothing queued: ask the busy ones to donate; enough queued: stop asking
            bool want = !stop && tasks.empty() && busy < g_jobs;
            for (int k = 0; k < g_jobs; k++) if (g_workers[k].busy && g_workers[k].task.mode == MODE_SUBTREE) g_w[k].split_request = want ? 1 : 0;
        }
        {   // kernel-memory back-pressure
            static double last_check = 0; bool &throttled = g_throttled; uint64_t &throttle_events = g_throttle_events;
            double tn = now_s();
            if (tn - last_check > 0.25) {
                last_check = tn;
                long kb = slab_kb();
                bool want = throttled ? kb > 1500000 : kb > 3000000;      // pause above 3 GB, resume below 1.5 GB
                if (want != throttled) { throttled = want; if (want) throttle_events++; for (int k = 0; k < g_jobs; k++) g_w[k].throttle = want ? 1 : 0; }
                if (throttled) for (int k = 0; k < g_jobs; k++) { g_workers[k].last_hb_t = tn; g_workers[k].stall_cpu0 = -1; }      // a paused worker is not a hung worker
            }
        }
        std::vector<pollfd> pf; std::vector<int> idx;
        for (int k = 0; k < g_jobs; k++) if (g_workers[k].busy) { pf.push_back({g_workers[k].donefd, POLLIN, 0}); idx.push_back(k); }
        poll(pf.data(), pf.size(), 20);
        for (size_t i = 0; i < pf.size(); i++) {
            int k = idx[i]; Worker &w = g_workers[k];
            if (pf[i].revents & POLLIN) {
                char c; if (read(w.donefd, &c, 1) == 1) {
                    if (c == 's') { take_donation(k); continue; }
                    take_donation(k);
                    w.busy = false;
                    absorb(rs, k, prog);
                    const vs_record &r = g_w[k].slot.rec;
                    if (w.task.pre.choice.empty()) ps.root_schedule = sched_str(r.choice, r.n);
                    ps.last_schedule = sched_str(r.choice, r.n);
                    if (w.task.mode == MODE_SINGLE && !stop && !p.single_schedule) {
                        // children of this node
                        int floor = (int)w.task.pre.choice.size();
                        int base = 0; for (int j = 0; j < floor && j < r.n; j++) base += alt_cost(r.flags[j], r.nalt[j], r.choice[j]);
                        for (int i2 = floor; i2 < branch_n(r); i2++) for (int alt = 1; alt < r.nalt[i2]; alt++) {
                            if (base + alt_cost(r.flags[i2], r.nalt[i2], alt) > bound) continue;
                            Task c; c.prog = prog; c.bound = bound;
                            c.pre.choice.assign(r.choice, r.choice + i2); c.pre.choice.push_back((uint8_t)alt);
                            c.pre.nalt.assign(r.nalt, r.nalt + i2 + 1); c.pre.sig.assign(r.sig, r.sig + i2 + 1);
                            c.floor = i2 + 1;
                            c.mode = ndev(c.pre) < split_depth ? MODE_SINGLE : MODE_SUBTREE;
                            tasks.push_back(std::move(c));
                        }
                    }
                    continue;
                }
            }
        }
        for (int k = 0; k < g_jobs; k++) {
            Worker &w = g_workers[k];
            if (w.pid <= 0) continue;
            int st; pid_t r = waitpid(w.pid, &st, WNOHANG);
            if (r == w.pid) {
                if (w.busy) handle_death(k, st);
                else { close(w.cmdfd); close(w.donefd); w.pid = -1; spawn_worker(k); }
                continue;
            }
            if (w.busy) {
                uint64_t hb = g_w[k].slot.heartbeat; double t = now_s();
                if (hb != w.last_hb) { w.last_hb = hb; w.last_hb_t = t; w.stall_cpu0 = -1; }
                else if (t - w.last_hb_t > 2 && t - w.stall_sample_t > 0.5) {
                    // no scheduling step for a while: watch what the process is doing (sampled twice a second)
                    long cpu; bool runnable;
                    w.stall_sample_t = t;
                    if (proc_sample(w.pid, cpu, runnable)) {
                        if (w.stall_cpu0 < 0) { w.stall_cpu0 = cpu; w.stall_t0 = t; w.stall_runnable = 0; }
                        if (runnable) w.stall_runnable++;
                        if (cpu != w.stall_cpu0 || runnable) {
                            // it computes or waits for a CPU: not blocked.  Start the quiet period again, but give up after 20 x the limit without a step (a loop without scheduling points).
                            if (t - w.last_hb_t < 20 * g_hang_limit) { w.stall_cpu0 = cpu; w.stall_t0 = t; }
                        }
                    }
                }
                if (hb == w.last_hb && w.stall_cpu0 >= 0 && t - w.stall_t0 > g_hang_limit) {      // asleep in all threads, no CPU used, for the whole limit
                    const vs_record &rr = g_w[k].slot.rec;
                    char b[256]; snprintf(b, sizeof b, "%s bound=%d schedule=%s: no scheduling step for %.0f s (blocking that the scheduler does not model)", p.name.c_str(), bound,
                                          sched_str(rr.choice, rr.n).c_str(), g_hang_limit);
                    absorb(rs, k, prog);
                    Task t = w.task; t.floor = std::max(t.floor, (int)g_w[k].cur_floor);
                    Prefix cur; cur.choice.assign(rr.choice, rr.choice + rr.n); cur.nalt.assign(rr.nalt, rr.nalt + rr.n); cur.sig.assign(rr.sig, rr.sig + rr.n);
                    kill_worker(k); take_donation(k); spawn_worker(k);
                    // a deterministic schedule is re-run once in a fresh process before it is called a hang (the explorer always extends a prefix with default choices,
                    // so "the choices recorded so far" identify the execution that was in progress)
                    if (++hang_retries[sched_str(rr.choice, rr.n)] >= 2) { rs.inconclusive.push_back(b); stop = true; }
                    else if (t.mode == MODE_SINGLE) { t.noprune_first = 1; tasks.push_front(t); }
                    else if ((int)cur.choice.size() < t.floor) { Task again = w.task; again.noprune_first = 1; tasks.push_front(again); }      // stalled before its prefix was replayed: the position in the subtree is unknown, redo the whole task (duplicates, never gaps)
                    else { Task c{prog, bound, MODE_SUBTREE, t.floor, std::move(cur)}; c.noprune_first = 1; tasks.push_front(std::move(c)); }
                }
            }
        }
        if (stop) for (int k = 0; k < g_jobs; k++) if (g_workers[k].busy) g_w[k].cancel = 1;
    }
    ps.per_bound.push_back(ps.schedules - before);
    ps.per_bound_contended.push_back(ps.contended - before_c);
    if (!stop) ps.completed_bound = bound; else if (g_deadline_hit) ps.capped = true;
    return !stop;
}

static std::vector<int> parse_ints(const std::string &s) {
    std::vector<int> v; std::stringstream ss(s); std::string tok;
    while (std::getline(ss, tok, ',')) if (!tok.empty()) v.push_back(atoi(tok.c_str()));
    return v;
}

int main(int argc, char **argv) {
    std::string out_path, only, schedule_arg; bool list = false, have_schedule = false; int max_bound = -1, max_violations = 1; double deadline = 0;
    g_property = "C00"; g_tier = "quick"; g_flavour = "plain"; g_replay_dir = "/verif/out/replays"; g_logdir = "/verif/out/logs";
    for (int i = 1; i < argc; i++) {
        std::string a = argv[i];
        auto val = [&]() -> std::string { if (i + 1 >= argc) { fprintf(stderr, "missing value for %s\n", a.c_str()); exit(2); } return argv[++i]; };
        if (a == "--property") g_property = val(); else if (a == "--tier") g_tier = val(); else if (a == "--flavour") g_flavour = val();
        else if (a == "--jobs") g_jobs = atoi(val().c_str()); else if (a == "--deadline") deadline = atof(val().c_str());
        else if (a == "--out") out_path = val(); else if (a == "--replay-dir") g_replay_dir = val(); else if (a == "--log-dir") g_logdir = val();
        else if (a == "--only") only = val(); else if (a == "--schedule") { schedule_arg = val(); have_schedule = true; }
        else if (a == "--max-bound") max_bound = atoi(val().c_str()); else if (a == "--max-violations") max_violations = atoi(val().c_str());
        else if (a == "--hang-limit") g_hang_limit = atof(val().c_str());
        else if (a == "--recycle-after") g_recycle_after = strtoull(val().c_str(), nullptr, 10);
        else if (a == "--list") list = true;
        else { fprintf(stderr, "unknown argument %s\n", a.c_str()); return 2; }
    }
    g_suite = vx_suite(g_property, g_tier, g_flavour);
    if (list) { for (auto &p : g_suite.programs) printf("%s\tbound=%d\t%s\n", p.name.c_str(), p.bound, p.describe.c_str()); return 0; }
    if (g_jobs < 1) g_jobs = 1;
    if (g_jobs > 64) g_jobs = 64;
    mkdir("/verif/out", 0755); mkdir(g_replay_dir.c_str(), 0755); mkdir(g_logdir.c_str(), 0755);
    double t0 = now_s();
    if (deadline > 0) g_deadline_at = t0 + deadline;

    size_t wbytes = sizeof(WorkerShm) * (g_jobs + 1), sbytes = sizeof(uint64_t) << STATE_BITS, obytes = sizeof(uint64_t) << OUTCOME_BITS;
    char *mem = (char *)mmap(nullptr, wbytes + sbytes + obytes, PROT_READ | PROT_WRITE, MAP_SHARED | MAP_ANONYMOUS, -1, 0);
    if (mem == MAP_FAILED) { perror("mmap"); return 2; }
    bool any_stateful = false; for (auto &p : g_suite.programs) any_stateful |= p.stateful;
    if (any_stateful) {
        g_prune_table = (uint64_t *)mmap(nullptr, sizeof(uint64_t) << PRUNE_BITS, PROT_READ | PROT_WRITE, MAP_SHARED | MAP_ANONYMOUS | MAP_NORESERVE, -1, 0);
        if (g_prune_table == MAP_FAILED) { perror("mmap prune table"); return 2; }
    }
    g_w = (WorkerShm *)mem; g_state_table = (uint64_t *)(mem + wbytes); g_outcome_table = (uint64_t *)(mem + wbytes + sbytes);

    // ---- replay of one schedule
    if (have_schedule) {
        int prog = -1;
        for (size_t i = 0; i < g_suite.programs.size(); i++) if (g_suite.programs[i].name == only) prog = (int)i;
        if (prog < 0) { fprintf(stderr, "no program named '%s' in suite %s/%s\n", only.c_str(), g_property.c_str(), g_tier.c_str()); return 2; }
        ExecResult e = run_once(prog, parse_ints(schedule_arg), 60);
        printf("REPLAY program=%s outcome=%s message=%s\n", only.c_str(), outcome_name(e.outcome), e.msg.c_str());
        for (auto &ev : e.events) printf("  %s\n", event_str(ev).c_str());
        if (!e.stderr_tail.empty()) printf("--- stderr ---\n%s\n", e.stderr_tail.c_str());
        return is_violation_outcome(e.outcome) ? 1 : e.outcome == VS_OUT_OK ? 0 : 2;
    }

    g_workers.resize(g_jobs);
    for (int k = 0; k < g_jobs; k++) spawn_worker(k);
    RunState rs;
    for (size_t pi = 0; pi < g_suite.programs.size(); pi++) {
        const VProgram &p = g_suite.programs[pi];
        if (!only.empty() && p.name != only) continue;
        int top = max_bound >= 0 ? std::min(max_bound, p.bound) : p.bound;
        rs.stats[(int)pi];
        if (p.stateful) {
            // ALL schedules, no preemption bound: depth-first over choice vectors, cut off at every state that has been reached before (visited set shared by the workers)
            // an empty visited set for this program: punch the pages out of the shared anonymous mapping (it reads back as zeros), or clear it the slow way
            if (madvise(g_prune_table, sizeof(uint64_t) << PRUNE_BITS, MADV_REMOVE) != 0) memset(g_prune_table, 0, sizeof(uint64_t) << PRUNE_BITS);
            if (explore(rs, (int)pi, UNBOUNDED, max_violations) && !g_deadline_hit) rs.stats[(int)pi].stateful_done = true;
            continue;
        }
        for (int b = 0; b <= top; b++) {
            if (g_deadline_hit) { rs.stats[(int)pi].capped = true; break; }
            if (!explore(rs, (int)pi, b, max_violations)) break;
        }
    }
    for (int k = 0; k < g_jobs; k++) kill_worker(k);

    // ---- confirm every violation by replaying its schedule twice
    int exit_code = 0;
    for (auto &v : rs.violations) {
        ExecResult a = run_once(v.prog, v.schedule, 60), b = run_once(v.prog, v.schedule, 60);
        bool same = a.outcome == v.outcome && b.outcome == v.outcome && a.hash == b.hash && a.schedule == v.schedule && b.schedule == v.schedule;
        if (v.outcome == VS_OUT_RACE) same = a.schedule == v.schedule && b.schedule == v.schedule && a.hash == b.hash && (a.outcome == VS_OUT_RACE || a.outcome == VS_OUT_OK);
        v.confirmed = same;
        if (!a.stderr_tail.empty()) v.stderr_tail = a.stderr_tail;
        if (!same) {
            char bb[512]; snprintf(bb, sizeof bb, "%s: violation (%s: %s) did not reproduce identically on replay (replay outcomes %s / %s)", v.program.c_str(), outcome_name(v.outcome), v.msg.c_str(),
                                   outcome_name(a.outcome), outcome_name(b.outcome));
            rs.inconclusive.push_back(bb);
        }
        v.replay_path = write_replay(v);
    }

    // ---- result file
    uint64_t schedules = 0, steps = 0, contended = 0, parked = 0; bool exhaustive = !g_deadline_hit;
    for (auto &kv : rs.stats) { schedules += kv.second.schedules; steps += kv.second.steps; contended += kv.second.contended; parked += kv.second.parked; if (kv.second.capped) exhaustive = false; }
    double wall = now_s() - t0;
    FILE *f = out_path.empty() ? stdout : fopen(out_path.c_str(), "w");
    if (!f) { perror("open result"); return 2; }
    fprintf(f, "{\n \"property\": \"%s\", \"tier\": \"%s\", \"flavour\": \"%s\", \"engine\": \"vsched\", \"jobs\": %d, \"wall_s\": %.2f, \"paused_for_kernel_memory\": %llu,\n", g_property.c_str(), g_tier.c_str(), g_flavour.c_str(), g_jobs, wall, (unsigned long long)g_throttle_events);
    fprintf(f, " \"exhaustive\": %s, \"deadline_hit\": %s,\n", exhaustive && rs.inconclusive.empty() ? "true" : "false", g_deadline_hit ? "true" : "false");
    fprintf(f, " \"rule\": \"%s\",\n", jesc(g_suite.rule).c_str());
    fprintf(f, " \"assumptions\": [");
    for (size_t i = 0; i < g_suite.assumptions.size(); i++) fprintf(f, "%s\"%s\"", i ? ", " : "", jesc(g_suite.assumptions[i]).c_str());
    fprintf(f, "],\n");
    fprintf(f, " \"schedules\": %llu, \"steps\": %llu, \"states\": %llu, \"distinct_outcomes\": %llu, \"contended_schedules\": %llu, \"parked_schedules\": %llu,\n",
            (unsigned long long)schedules, (unsigned long long)steps, (unsigned long long)rs.states, (unsigned long long)rs.outcomes, (unsigned long long)contended, (unsigned long long)parked);
    fprintf(f, " \"programs\": [\n");
    bool first = true;
    for (auto &kv : rs.stats) {
        const VProgram &p = g_suite.programs[kv.first]; const ProgStats &s = kv.second;
        fprintf(f, "%s  {\"name\": \"%s\", \"describe\": \"%s\", \"bound_requested\": %d, \"bound_completed\": %d, \"schedules\": %llu, \"steps\": %llu, \"contended\": %llu, \"parked\": %llu, \"max_choice_points\": %llu, \"threads\": %llu, \"per_bound\": [",
                first ? "" : ",\n", jesc(p.name).c_str(), jesc(p.describe).c_str(), p.bound, s.completed_bound, (unsigned long long)s.schedules, (unsigned long long)s.steps,
                (unsigned long long)s.contended, (unsigned long long)s.parked, (unsigned long long)s.max_points, (unsigned long long)s.max_threads);
        for (size_t i = 0; i < s.per_bound.size(); i++) fprintf(f, "%s%llu", i ? "," : "", (unsigned long long)s.per_bound[i]);
        bool complete = s.per_bound.size() >= 2 && s.completed_bound == (int)s.per_bound.size() - 1 && s.per_bound[s.per_bound.size() - 1] == s.per_bound[s.per_bound.size() - 2];
        if (p.stateful) complete = s.stateful_done && s.table_full == 0;
        if (p.single_schedule) complete = false;
        fprintf(f, "], \"single_schedule\": %s, \"stateful\": %s, \"visited_states\": %llu, \"executions_cut_at_visited_state\": %llu, \"all_schedules_explored\": %s, \"per_bound_contended\": [", p.single_schedule ? "true" : "false", p.stateful ? "true" : "false",
                (unsigned long long)s.visited_states, (unsigned long long)s.pruned_executions, complete ? "true" : "false");
        for (size_t i = 0; i < s.per_bound_contended.size(); i++) fprintf(f, "%s%llu", i ? "," : "", (unsigned long long)s.per_bound_contended[i]);
        fprintf(f, "], \"default_schedule\": \"%s\", \"last_schedule\": \"%s\"}", s.root_schedule.c_str(), s.last_schedule.c_str());
        first = false;
    }
    fprintf(f, "\n ],\n \"violations\": [\n");
    for (size_t i = 0; i < rs.violations.size(); i++) {
        const Violation &v = rs.violations[i];
        fprintf(f, "  {\"program\": \"%s\", \"bound\": %d, \"outcome\": \"%s\", \"message\": \"%s\", \"schedule\": \"%s\", \"replay\": \"%s\", \"confirmed\": %s, \"stderr_tail\": \"%s\"}%s\n", jesc(v.program).c_str(), v.bound,
                outcome_name(v.outcome), jesc(v.msg).c_str(), [&] { std::string s; for (size_t j = 0; j < v.schedule.size(); j++) { if (j) s += ','; s += std::to_string(v.schedule[j]); } return s; }().c_str(),
                jesc(v.replay_path).c_str(), v.confirmed ? "true" : "false", jesc(v.stderr_tail).c_str(), i + 1 < rs.violations.size() ? "," : "");
        if (v.confirmed) exit_code = 1;
    }
    fprintf(f, " ],\n \"foreign_outcomes\": {");
    { bool ff = true; for (auto &kv : rs.foreign) { fprintf(f, "%s\"%s\": %llu", ff ? "" : ", ", jesc(kv.first).c_str(), (unsigned long long)kv.second); ff = false; } }
    fprintf(f, "},\n \"inconclusive\": [");
    for (size_t i = 0; i < rs.inconclusive.size(); i++) fprintf(f, "%s\"%s\"", i ? ", " : "", jesc(rs.inconclusive[i]).c_str());
    fprintf(f, "]\n}\n");
    if (f != stdout) fclose(f);
    if (!rs.inconclusive.empty() && exit_code == 0) exit_code = 2;
    return exit_code;
}
