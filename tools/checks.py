"""Registry of checks: which binaries (harness + tulz sources + engine) decide which property, in which flavours."""

E1_RESOURCE = {"name": "e1-resource", "engine": "e1", "harness": ["resource.cc"], "repo_src": ["src/threading/rwp/Resource.cpp"]}

MC = "model_checking"

CHECKS = {
    "C01": {"level": MC, "runs": [{"binary": E1_RESOURCE, "flavour": "plain"}, {"binary": E1_RESOURCE, "flavour": "asan", "args": ["--max-bound", "2"], "tiers": ["thorough"]}]},
    "C02": {"level": MC, "runs": [{"binary": E1_RESOURCE, "flavour": "plain"}]},
    "C03": {"level": MC, "runs": [{"binary": E1_RESOURCE, "flavour": "plain"}]},
    "C12": {"level": MC, "runs": [{"binary": E1_RESOURCE, "flavour": "plain"}]},
}

ENGINES = [
    {"name": "vsched", "path": "engine/vsched.c engine/explore.cc", "serves_properties": ["C01", "C02", "C03", "C12"],
     "kind_free_text": "stateless model checking of the real implementation: cooperative scheduler interposed on pthread mutex/condvar/create/join + clock, depth-first enumeration of every schedule up to a preemption bound, forked workers, replay-confirmed violations"},
]

_E1_NOTE = ("Trusted: the interposed scheduler (engine/vsched.c) models pthread mutex/condvar semantics faithfully; sequential consistency at synchronisation-step granularity "
            "(data-race freedom is what C15 checks on the same programs); no spurious wake-ups; bounds as listed in the evidence (threads, sections per thread, preemptions).")

META = {
    "C01": {"engine": "vsched", "design_ref": "DESIGN.md §4 C01", "technique": "stateless model checking of the implementation: exhaustive preemption-bounded schedule enumeration under a controlled scheduler",
            "text": "Every schedule with <= c preemptions (c=2..3) of every program in a family of reader/writer lock-unlock scripts (3-5 threads, 1-2 critical sections each, raw calls and guards) is executed on the real Resource; "
                    "holder counters are checked at every acquisition and tulz's own assert(m_activeOp == opType) is live. A pass is a coverage statement for these programs and bounds, not a proof for all thread counts.",
            "note": _E1_NOTE},
    "C02": {"engine": "vsched", "design_ref": "DESIGN.md §4 C02", "technique": "stateless model checking of the implementation: exhaustive preemption-bounded schedule enumeration with deadlock detection",
            "text": "Same program family as C01 plus arrival-shaped programs (a holder keeps the lock until the requesters have queued in a known order). In every explored schedule a state with unfinished threads and no enabled thread is a deadlock; "
                    "after all threads are joined the main thread takes W, then R twice: a Resource that is not idle parks it forever and is detected the same way.",
            "note": _E1_NOTE},
    "C03": {"engine": "vsched", "design_ref": "DESIGN.md §4 C03", "technique": "stateless model checking of the implementation: exhaustive preemption-bounded schedule enumeration, FIFO oracle over the event log",
            "text": "Same programs as C02. Oracle over the totally ordered event log of each schedule: for requests A,B that are not both reads, if A was parked inside lock*() before B was issued then A is granted before B.",
            "note": _E1_NOTE},
    "C12": {"engine": "vsched", "design_ref": "DESIGN.md §4 C12", "technique": "stateless model checking of the implementation: exhaustive preemption-bounded schedule enumeration, no-park and rendezvous oracles",
            "text": "Reader-only programs (2-6 threads), mixed programs and rendezvous programs (k readers queue behind a writer and must meet at a barrier inside the read section). A read request whose call overlaps no write request must never park; "
                    "a rendezvous that deadlocks means queued readers were not admitted together.",
            "note": _E1_NOTE},
}
