// seqx — common runtime of the E2 harnesses (explicit-state / bounded-exhaustive exploration of sequential code).
//
// * the exploration runs in a forked child; the operation history in flight is kept in shared memory (`mark`), so a
//   sanitizer abort or a SIGSEGV is attributed to the exact history and becomes a replay file;
// * non-fatal oracle mismatches are recorded with `violation` and the exploration continues;
// * every violation is replayed twice in fresh processes (`--replay` machinery) before it is reported;
// * the result file has the shape tools/check expects (see finish() there).
#ifndef SEQX_H
#define SEQX_H
#include <algorithm>
#include <cstdarg>
#include <cstdint>
#include <cstdio>
#include <cstdlib>
#include <cstring>
#include <dirent.h>
#include <fcntl.h>
#include <fstream>
#include <functional>
#include <map>
#include <set>
#include <signal.h>
#include <sstream>
#include <string>
#include <sys/mman.h>
#include <sys/stat.h>
#include <sys/wait.h>
#include <time.h>
#include <unistd.h>
#include <unordered_map>
#include <vector>

namespace sx {

struct Shm {
    char marker[16384];
    volatile int done;
    int nviol;
    struct V { char sig[256]; char msg[2048]; char hist[8192]; } viol[12];
    uint64_t evaluations, nontrivial, states, transitions, validated;
    int exhaustive;
    int nsamples; char samples[8][1024];
    char detail[8192];
    uint64_t suppressed;
};
inline Shm *shm;

struct Options { std::string property = "C00", tier = "quick", flavour = "plain", out, replay_dir = "/verif/out/replays", log_dir = "/verif/out/logs", replay; int jobs = 16; double deadline = 600; };
inline Options opt;
inline double t_start;

inline double now_s() { timespec ts; clock_gettime(CLOCK_MONOTONIC, &ts); return ts.tv_sec + ts.tv_nsec * 1e-9; }
inline bool thorough() { return opt.tier == "thorough"; }
inline bool deadline_passed() { return opt.deadline > 0 && now_s() - t_start > opt.deadline; }

inline void mark(const std::string &s) { size_t n = std::min(s.size(), sizeof shm->marker - 1); memcpy(shm->marker, s.data(), n); shm->marker[n] = 0; }
inline std::string marker() { return shm->marker; }

// non-fatal violation; `hist` defaults to the history in flight
inline void violation(const std::string &sig, const std::string &msg, const std::string &hist = "") {
    for (int i = 0; i < shm->nviol; i++) if (sig == shm->viol[i].sig) { shm->suppressed++; return; }
    if (shm->nviol >= 12) { shm->suppressed++; return; }
    auto &v = shm->viol[shm->nviol];
    snprintf(v.sig, sizeof v.sig, "%s", sig.c_str());
    snprintf(v.msg, sizeof v.msg, "%s", msg.c_str());
    snprintf(v.hist, sizeof v.hist, "%s", hist.empty() ? shm->marker : hist.c_str());
    shm->nviol++;
}
inline std::string fmt(const char *f, ...) { char b[4096]; va_list ap; va_start(ap, f); vsnprintf(b, sizeof b, f, ap); va_end(ap); return b; }
inline void sample(const std::string &s) { if (shm->nsamples < 8) snprintf(shm->samples[shm->nsamples++], 1024, "%s", s.c_str()); }
inline void detail(const std::string &s) { snprintf(shm->detail, sizeof shm->detail, "%s", s.c_str()); }

inline std::string jesc(const std::string &s) {
    std::string o;
    for (unsigned char c : s) {
        if (c == '"' || c == '\\') { o += '\\'; o += (char)c; }
        else if (c == '\n') o += "\\n"; else if (c == '\t') o += "\\t"; else if (c == '\r') o += "\\r";
        else if (c < 0x20 || c >= 0x7f) { char b[8]; snprintf(b, sizeof b, "\\u%04x", c); o += b; }
        else o += (char)c;
    }
    return o;
}
// inverse of jesc for the subset it produces
inline std::string junesc(const std::string &s) {
    std::string o;
    for (size_t i = 0; i < s.size(); i++) {
        if (s[i] != '\\' || i + 1 >= s.size()) { o += s[i]; continue; }
        char c = s[++i];
        if (c == 'n') o += '\n'; else if (c == 't') o += '\t'; else if (c == 'r') o += '\r';
        else if (c == 'u' && i + 4 < s.size()) { o += (char)strtol(s.substr(i + 1, 4).c_str(), nullptr, 16); i += 4; }
        else o += c;
    }
    return o;
}
inline std::string json_field(const std::string &text, const std::string &key) {
    std::string k = "\"" + key + "\": \"";
    size_t a = text.find(k);
    if (a == std::string::npos) return "";
    a += k.size();
    std::string raw;
    for (size_t i = a; i < text.size(); i++) { if (text[i] == '\\') { raw += text[i]; raw += text[++i]; continue; } if (text[i] == '"') break; raw += text[i]; }
    return junesc(raw);
}

// number of open file descriptors of this process (the directory stream used for counting is not included)
inline int open_fds() { int n = 0; if (DIR *d = opendir("/proc/self/fd")) { while (dirent *e = readdir(d)) if (e->d_name[0] != '.') n++; closedir(d); n--; } return n; }

// CPU seconds (user + system) a process has used so far; -1 if it cannot be read
inline double cpu_seconds(pid_t pid) {
    char path[64]; snprintf(path, sizeof path, "/proc/%d/stat", (int)pid);
    FILE *f = fopen(path, "r"); if (!f) return -1;
    char buf[1024]; size_t n = fread(buf, 1, sizeof buf - 1, f); fclose(f); buf[n] = 0;
    char *rp = strrchr(buf, ')'); if (!rp) return -1;
    long ut = 0, st = 0;
    if (sscanf(rp + 2, "%*c %*d %*d %*d %*d %*d %*u %*u %*u %*u %*u %ld %ld", &ut, &st) != 2) return -1;
    return (double)(ut + st) / (double)sysconf(_SC_CLK_TCK);
}
// A step of the code under test that burns this much CPU without finishing is taken for non-termination (the steps of these harnesses take milliseconds).
constexpr double STEP_CPU_LIMIT_S = 20;

inline std::string read_file(const std::string &p) { std::ifstream f(p, std::ios::binary); std::stringstream ss; ss << f.rdbuf(); return ss.str(); }
inline std::string tail(const std::string &s, size_t n) { return s.size() > n ? s.substr(s.size() - n) : s; }

// Runs the tasks in forked children (at most opt.jobs at a time), each with its own Shm; merges counters, samples and
// violations into the caller's Shm.  A child that dies becomes a "crash" violation carrying its history in flight.
inline void parallel(const std::vector<std::function<void()>> &tasks) {
    size_t n = tasks.size();
    Shm *pool = (Shm *)mmap(nullptr, sizeof(Shm) * n, PROT_READ | PROT_WRITE, MAP_SHARED | MAP_ANONYMOUS, -1, 0);
    if (pool == MAP_FAILED) { perror("mmap"); _exit(3); }
    Shm *mine = shm;
    std::vector<pid_t> pid(n, -1); std::vector<int> status(n, 0);
    size_t next = 0, running = 0, done = 0;
    std::set<size_t> retried;
    std::vector<std::string> seen_marker(n); std::vector<double> marker_cpu(n, -1); std::vector<bool> hung(n, false), finished(n, false); double last_scan = 0;
    fflush(stdout); fflush(stderr);
    while (done < n) {
        while (next < n && running < (size_t)std::max(1, opt.jobs)) {
            memset(&pool[next], 0, sizeof(Shm)); pool[next].exhaustive = 1;
            pid_t p = fork();
            if (p == 0) { shm = &pool[next]; tasks[next](); shm->done = 1; _exit(0); }
            pid[next++] = p; running++;
        }
        int st; pid_t r = waitpid(-1, &st, WNOHANG);
        if (r < 0) break;
        if (r == 0) {
            // nobody finished: look for a task that is stuck inside one step (same marker, CPU time still growing)
            usleep(20000);
            double tn = now_s();
            if (tn - last_scan > 2) {
                last_scan = tn;
                for (size_t i = 0; i < next; i++) if (pid[i] > 0 && !finished[i]) {
                    std::string mk = pool[i].marker; double cpu = cpu_seconds(pid[i]);
                    if (mk != seen_marker[i]) { seen_marker[i] = mk; marker_cpu[i] = cpu; continue; }
                    if (cpu >= 0 && marker_cpu[i] >= 0 && cpu - marker_cpu[i] > STEP_CPU_LIMIT_S) {
                        kill(pid[i], SIGKILL); hung[i] = true;
                    }
                }
            }
            continue;
        }
        for (size_t i = 0; i < n; i++) if (pid[i] == r) {
            finished[i] = true;
            if (hung[i]) { status[i] = st; running--; done++; break; }
            // SIGKILL never comes from the code under test (sanitizers abort, wild accesses fault): it is the environment (the kernel's OOM killer was seen doing this when
            // several explorations ran at once).  The task is run again from its start, once, before its death is taken for a finding.
            if (WIFSIGNALED(st) && WTERMSIG(st) == SIGKILL && !pool[i].done && retried.insert(i).second) {
                memset(&pool[i], 0, sizeof(Shm)); pool[i].exhaustive = 1;
                pid_t p = fork();
                if (p == 0) { shm = &pool[i]; tasks[i](); shm->done = 1; _exit(0); }
                pid[i] = p; finished[i] = false; seen_marker[i].clear(); marker_cpu[i] = -1;
                break;
            }
            status[i] = st; running--; done++;
        }
    }
    shm = mine;
    for (size_t i = 0; i < n; i++) {
        Shm &c = pool[i];
        shm->evaluations += c.evaluations; shm->nontrivial += c.nontrivial; shm->states += c.states; shm->transitions += c.transitions; shm->validated += c.validated; shm->suppressed += c.suppressed;
        if (!c.exhaustive) shm->exhaustive = 0;
        for (int k = 0; k < c.nsamples && k < 2; k++) sample(c.samples[k]);
        for (int k = 0; k < c.nviol; k++) violation(c.viol[k].sig, c.viol[k].msg, c.viol[k].hist);
        if (hung[i]) { shm->exhaustive = 0; violation("hang", fmt("hang: one step used more than %.0f s of CPU time without finishing (non-termination)", STEP_CPU_LIMIT_S), c.marker); continue; }
        if (!c.done) {
            shm->exhaustive = 0;
            violation("crash", WIFSIGNALED(status[i]) ? fmt("crash: killed by signal %d (see the replay for the sanitizer report)", WTERMSIG(status[i])) : fmt("crash: exit status %d", WEXITSTATUS(status[i])), c.marker);
        }
    }
    munmap(pool, sizeof(Shm) * n);
}

struct ReplayOutcome { bool violated; std::string what; };

// Runs fn in a forked child with fresh shared state; returns how it ended.
inline ReplayOutcome isolated(const std::function<void()> &fn, const std::string &errfile, double limit_s = 120) {
    shm->nviol = 0; shm->done = 0; shm->marker[0] = 0;
    fflush(stdout); fflush(stderr);
    pid_t pid = fork();
    if (pid == 0) {
        int fd = open(errfile.c_str(), O_WRONLY | O_CREAT | O_TRUNC, 0644);
        if (fd >= 0) { dup2(fd, 2); close(fd); }
        fn();
        shm->done = 1;
        _exit(0);
    }
    int st = 0; double t0 = now_s(); bool killed = false;
    for (;;) {
        pid_t r = waitpid(pid, &st, WNOHANG);
        if (r == pid) break;
        if (now_s() - t0 > limit_s) { kill(pid, SIGKILL); waitpid(pid, &st, 0); killed = true; break; }
        usleep(1000);
    }
    if (killed) return {false, "timeout"};
    if (!shm->done) {
        std::string err = read_file(errfile), what;
        size_t p = err.find("ERROR: AddressSanitizer"); if (p == std::string::npos) p = err.find("runtime error:"); if (p == std::string::npos) p = err.find("Assertion");
        what = WIFSIGNALED(st) ? fmt("crash: killed by signal %d", WTERMSIG(st)) : fmt("crash: exit status %d", WEXITSTATUS(st));
        if (p != std::string::npos) what += " | " + err.substr(p, err.find('\n', p) - p);
        return {true, what};
    }
    if (shm->nviol) return {true, std::string(shm->viol[0].sig) + " | " + shm->viol[0].msg};
    return {false, "ok"};
}

struct Harness {
    std::string name;                                    // harness id, stored in replay files
    std::string rule;
    std::vector<std::string> assumptions;
    std::function<void()> explore;                       // fills shm counters; calls mark()/violation()
    std::function<void(const std::string &history)> replay;   // re-executes one history with all oracles on
};

inline int run_main(int argc, char **argv, const Harness &h) {
    for (int i = 1; i < argc; i++) {
        std::string a = argv[i];
        auto val = [&]() -> std::string { if (i + 1 >= argc) { fprintf(stderr, "missing value for %s\n", a.c_str()); exit(2); } return argv[++i]; };
        if (a == "--property") opt.property = val(); else if (a == "--tier") opt.tier = val(); else if (a == "--flavour") opt.flavour = val();
        else if (a == "--out") opt.out = val(); else if (a == "--replay-dir") opt.replay_dir = val(); else if (a == "--log-dir") opt.log_dir = val();
        else if (a == "--jobs") opt.jobs = atoi(val().c_str()); else if (a == "--deadline") opt.deadline = atof(val().c_str()); else if (a == "--replay") opt.replay = val();
        else { fprintf(stderr, "unknown argument %s\n", a.c_str()); return 2; }
    }
    t_start = now_s();
    mkdir("/verif/out", 0755); mkdir(opt.replay_dir.c_str(), 0755); mkdir(opt.log_dir.c_str(), 0755);
    shm = (Shm *)mmap(nullptr, sizeof(Shm), PROT_READ | PROT_WRITE, MAP_SHARED | MAP_ANONYMOUS, -1, 0);
    if (shm == MAP_FAILED) { perror("mmap"); return 2; }
    memset(shm, 0, sizeof *shm);
    std::string errfile = opt.log_dir + "/" + h.name + ".err";

    if (!opt.replay.empty()) {
        std::string hist = json_field(read_file(opt.replay), "history");
        ReplayOutcome r = isolated([&] { mark(hist); h.replay(hist); }, errfile);
        printf("REPLAY harness=%s history=%s\n  outcome: %s\n", h.name.c_str(), jesc(hist).c_str(), r.what.c_str());
        std::string err = read_file(errfile);
        if (!err.empty()) printf("--- stderr ---\n%s\n", tail(err, 5000).c_str());
        if (json_field(read_file(opt.replay), "signature") == "hang" && r.what == "timeout") { printf("  (the recorded finding is non-termination: the step did not finish within the replay limit either)\n"); return 1; }
        return r.violated ? 1 : 0;
    }

    // ---- exploration in a child
    fflush(stdout); fflush(stderr);
    pid_t pid = fork();
    if (pid == 0) {
        setpgid(0, 0);       // its own process group: the tasks it forks are stopped together with it
        int fd = open(errfile.c_str(), O_WRONLY | O_CREAT | O_TRUNC, 0644);
        if (fd >= 0) { dup2(fd, 2); close(fd); }
        shm->exhaustive = 1;
        h.explore();
        shm->done = 1;
        _exit(0);
    }
    int st = 0; bool killed = false, hung_step = false;
    std::string seen_marker; double marker_cpu = -1, last_scan = 0;
    for (;;) {
        pid_t r = waitpid(pid, &st, WNOHANG);
        if (r == pid) break;
        if (opt.deadline > 0 && now_s() - t_start > opt.deadline + 60) { kill(-pid, SIGKILL); kill(pid, SIGKILL); waitpid(pid, &st, 0); killed = true; break; }
        if (now_s() - last_scan > 2) {      // stuck inside one step of the code under test? (the exploring process itself; its forked tasks are watched by parallel())
            last_scan = now_s();
            std::string mk = shm->marker; double cpu = cpu_seconds(pid);
            if (mk != seen_marker) { seen_marker = mk; marker_cpu = cpu; }
            else if (!mk.empty() && cpu >= 0 && marker_cpu >= 0 && cpu - marker_cpu > STEP_CPU_LIMIT_S) { kill(-pid, SIGKILL); kill(pid, SIGKILL); waitpid(pid, &st, 0); hung_step = true; break; }
        }
        usleep(2000);
    }
    struct Viol { std::string sig, msg, hist, replay; bool confirmed; };
    std::vector<Viol> viols; std::vector<std::string> inconclusive;
    Shm snap = *shm;
    for (int i = 0; i < snap.nviol; i++) viols.push_back({snap.viol[i].sig, snap.viol[i].msg, snap.viol[i].hist, "", false});
    bool exhaustive = snap.exhaustive && snap.done;
    if (killed) { inconclusive.push_back("exploration exceeded its deadline and was stopped; history in flight: " + std::string(snap.marker)); }
    else if (hung_step) { exhaustive = false; viols.push_back({"hang", fmt("hang: one step used more than %.0f s of CPU time without finishing (non-termination)", STEP_CPU_LIMIT_S), snap.marker, "", false}); }
    else if (!snap.done) {
        std::string err = read_file(errfile), what;
        size_t p = err.find("ERROR: AddressSanitizer"); if (p == std::string::npos) p = err.find("runtime error:"); if (p == std::string::npos) p = err.find("Assertion");
        what = WIFSIGNALED(st) ? fmt("crash: killed by signal %d", WTERMSIG(st)) : fmt("crash: exit status %d", WEXITSTATUS(st));
        if (p != std::string::npos) what += " | " + err.substr(p, err.find('\n', p) - p);
        std::string sig = "crash";
        if (p != std::string::npos) { std::string l = err.substr(p, err.find('\n', p) - p); size_t q = l.find(" on address"); sig += ":" + l.substr(0, q); }
        size_t q = err.find("SUMMARY:");
        if (q != std::string::npos) what += " | " + err.substr(q, err.find('\n', q) - q);
        viols.push_back({sig, what, snap.marker, "", false});
    }
    // ---- confirm by replaying each violation twice, write replay files
    int vi = 0;
    for (auto &v : viols) {
        ReplayOutcome a = isolated([&] { mark(v.hist); h.replay(v.hist); }, errfile), b = isolated([&] { mark(v.hist); h.replay(v.hist); }, errfile);
        v.confirmed = a.violated && b.violated;
        if (v.sig == "hang") v.confirmed = a.what == "timeout" && b.what == "timeout";      // the same step does not finish within the replay limit either
        if (v.confirmed && v.msg.find(a.what) == std::string::npos && a.what.compare(0, 5, "crash") == 0) v.msg += " | on replay: " + a.what;
        if (!v.confirmed) inconclusive.push_back("violation did not reproduce on replay (" + a.what + " / " + b.what + "): " + v.sig + " history=" + v.hist);
        uint64_t hh = 1469598103934665603ULL; for (unsigned char c : v.hist) hh = (hh ^ c) * 1099511628211ULL;
        std::string path = fmt("%s/%s-%s-%s-%d-%08x.json", opt.replay_dir.c_str(), opt.property.c_str(), opt.flavour.c_str(), h.name.c_str(), vi++, (unsigned)(hh & 0xffffffff));
        FILE *f = fopen(path.c_str(), "w");
        if (f) {
            fprintf(f, "{\n \"property\": \"%s\",\n \"engine\": \"seqx\",\n \"harness\": \"%s\",\n \"flavour\": \"%s\",\n \"tier\": \"%s\",\n \"signature\": \"%s\",\n \"message\": \"%s\",\n \"confirmed_by_replay\": %s,\n \"history\": \"%s\"\n}\n",
                    opt.property.c_str(), h.name.c_str(), opt.flavour.c_str(), opt.tier.c_str(), jesc(v.sig).c_str(), jesc(v.msg).c_str(), v.confirmed ? "true" : "false", jesc(v.hist).c_str());
            fclose(f);
            v.replay = path;
        }
    }
    // ---- result file
    FILE *f = opt.out.empty() ? stdout : fopen(opt.out.c_str(), "w");
    if (!f) { perror("result"); return 2; }
    fprintf(f, "{\n \"property\": \"%s\", \"tier\": \"%s\", \"flavour\": \"%s\", \"engine\": \"seqx\", \"harness\": \"%s\", \"wall_s\": %.2f,\n", opt.property.c_str(), opt.tier.c_str(), opt.flavour.c_str(), h.name.c_str(), now_s() - t_start);
    fprintf(f, " \"exhaustive\": %s,\n \"rule\": \"%s\",\n \"assumptions\": [", exhaustive && viols.empty() ? "true" : "false", jesc(h.rule).c_str());
    for (size_t i = 0; i < h.assumptions.size(); i++) fprintf(f, "%s\"%s\"", i ? ", " : "", jesc(h.assumptions[i]).c_str());
    fprintf(f, "],\n \"evaluations\": %llu, \"distinct_nontrivial\": %llu, \"states\": %llu, \"transitions\": %llu, \"traces_validated\": %llu,\n", (unsigned long long)snap.evaluations,
            (unsigned long long)snap.nontrivial, (unsigned long long)snap.states, (unsigned long long)snap.transitions, (unsigned long long)snap.validated);
    if (snap.nsamples == 0) { snprintf(snap.samples[0], 1024, "%s", snap.marker); snap.nsamples = 1; }
    fprintf(f, " \"samples\": [");
    for (int i = 0; i < snap.nsamples; i++) fprintf(f, "%s\"%s\"", i ? ", " : "", jesc(snap.samples[i]).c_str());
    fprintf(f, "],\n \"detail\": {\"notes\": \"%s\", \"suppressed_duplicate_violations\": %llu},\n \"violations\": [\n", jesc(snap.detail).c_str(), (unsigned long long)snap.suppressed);
    for (size_t i = 0; i < viols.size(); i++)
        fprintf(f, "  {\"signature\": \"%s\", \"message\": \"%s\", \"replay\": \"%s\", \"confirmed\": %s}%s\n", jesc(viols[i].sig).c_str(), jesc(viols[i].msg + " [history: " + viols[i].hist + "]").c_str(),
                jesc(viols[i].replay).c_str(), viols[i].confirmed ? "true" : "false", i + 1 < viols.size() ? "," : "");
    fprintf(f, " ],\n \"inconclusive\": [");
    for (size_t i = 0; i < inconclusive.size(); i++) fprintf(f, "%s\"%s\"", i ? ", " : "", jesc(inconclusive[i]).c_str());
    fprintf(f, "]\n}\n");
    if (f != stdout) fclose(f);
    for (auto &v : viols) if (v.confirmed) return 1;
    return inconclusive.empty() ? 0 : 2;
}

// ------------------------------------------------------------------------------------------------------------------
// Tracked: an element type with observable lifetime that may be relocated bitwise (tulz containers memcpy / realloc their
// elements), therefore identified by a serial number stored INSIDE the object, not by its address.
enum TState { T_LIVE, T_MOVED, T_DESTROYED };
struct TEntry { TState st; int value; };
inline std::unordered_map<uint64_t, TEntry> t_reg;
inline uint64_t t_next = 1;
inline uint64_t t_ctor, t_dtor;
inline const uint32_t T_MAGIC = 0x7AC3ED01u;

inline void t_reset() { t_reg.clear(); t_next = 1; t_ctor = t_dtor = 0; }

struct Tracked {
    uint32_t magic; uint32_t pad = 0; uint64_t serial;
    static uint64_t fresh(TState st, int v) { uint64_t s = t_next++; t_reg[s] = TEntry{st, v}; t_ctor++; return s; }
    const TEntry *entry(const char *what) const {
        if (magic != T_MAGIC) { violation("lifetime:garbage", fmt("%s on storage that holds no element (magic %#x, not a constructed object)", what, magic)); return nullptr; }
        auto it = t_reg.find(serial);
        if (it == t_reg.end()) { violation("lifetime:garbage", fmt("%s on storage that holds no element (unknown serial %llu)", what, (unsigned long long)serial)); return nullptr; }
        if (it->second.st == T_DESTROYED) { violation("lifetime:use-after-destroy", fmt("%s on an element that was already destroyed (serial %llu, value %d)", what, (unsigned long long)serial, it->second.value)); return nullptr; }
        return &it->second;
    }
    Tracked() : magic(T_MAGIC), serial(fresh(T_LIVE, 0)) {}
    Tracked(int v) : magic(T_MAGIC), serial(fresh(T_LIVE, v)) {}
    Tracked(const Tracked &o) : magic(T_MAGIC) { const TEntry *e = o.entry("copy-construct from"); serial = fresh(e ? e->st == T_LIVE ? T_LIVE : T_MOVED : T_MOVED, e ? e->value : -999); }
    Tracked(Tracked &&o) noexcept : magic(T_MAGIC) {
        const TEntry *e = o.entry("move-construct from");
        serial = fresh(e ? e->st : T_MOVED, e ? e->value : -999);
        if (e) t_reg[o.serial].st = T_MOVED;
    }
    Tracked &operator=(const Tracked &o) {
        const TEntry *me = entry("copy-assign to"); const TEntry *e = o.entry("copy-assign from");
        if (me && e) t_reg[serial] = *e;
        return *this;
    }
    Tracked &operator=(Tracked &&o) noexcept {
        const TEntry *me = entry("move-assign to"); const TEntry *e = o.entry("move-assign from");
        if (me && e) { TEntry v = *e; if (&o != this) t_reg[o.serial].st = T_MOVED; t_reg[serial] = v; }
        return *this;
    }
    ~Tracked() {
        if (magic != T_MAGIC) { violation("lifetime:garbage", fmt("destructor ran on storage that holds no element (magic %#x)", magic)); return; }
        auto it = t_reg.find(serial);
        if (it == t_reg.end()) { violation("lifetime:garbage", fmt("destructor ran on storage that holds no element (unknown serial %llu)", (unsigned long long)serial)); return; }
        if (it->second.st == T_DESTROYED) { violation("lifetime:double-destroy", fmt("element destroyed twice (serial %llu, value %d)", (unsigned long long)serial, it->second.value)); return; }
        it->second.st = T_DESTROYED; t_dtor++;
    }
    int value() const { const TEntry *e = entry("read of"); if (!e) return -998; if (e->st != T_LIVE) { violation("lifetime:read-moved", fmt("read of a moved-from element (serial %llu)", (unsigned long long)serial)); return -997; } return e->value; }
    bool operator==(const Tracked &o) const { return value() == o.value(); }
};
static_assert(sizeof(Tracked) == 16, "Tracked layout");

// values still held by undestroyed objects (call after every container of the history is gone)
inline std::vector<int> t_live_values() { std::vector<int> v; for (auto &kv : t_reg) if (kv.second.st == T_LIVE) v.push_back(kv.second.value); return v; }

}  // namespace sx
#endif
