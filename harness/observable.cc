// E2 harness for tulz::Observable: C16 (notifies exactly on change, with the new value).
#include <tulz/observer/Observable.h>

#include <cmath>
#include <deque>
#include <memory>
#include <set>
#include <string>
#include <vector>

#include "seqx.h"

using namespace sx;
using namespace tulz;

namespace {
struct NearEq { float eps = 0.5f; bool operator()(const float &a, const float &b) const { return std::fabs(a - b) <= eps; } };
// an equality coarser than one increment step: integers in the same bucket of four compare equal
struct BucketEq { bool operator()(const int &a, const int &b) const { auto fl = [](int v) { return v >= 0 ? v / 4 : -((-v + 3) / 4); }; return fl(a) == fl(b); } };

// ASSIGNW: assignment from a value of ANOTHER type that converts to T (a double to an Observable<int>, a string literal to an Observable<std::string>): "changes the held value" is judged after the conversion
enum OpKind { ASSIGN, ADD, SUB, MUL, DIV, PREINC, POSTINC, PREDEC, POSTDEC, APPLY_ID, APPLY_SET, APPLY_ADD, SUBSCRIBE, UNSUBSCRIBE, ASSIGNW, MOVERT, NKINDS };
const char *kname[] = {"assign", "add", "sub", "mul", "div", "preinc", "postinc", "predec", "postdec", "applyid", "applyset", "applyadd", "subscribe", "unsubscribe", "wassign", "movert"};
struct Op { int kind, arg; };     // arg = index into the domain's value list, or subscriber slot
std::string op_str(const Op &o) { return std::string(kname[o.kind]) + std::to_string(o.arg); }
bool parse_ops(const std::string &text, std::vector<Op> &h) {
    std::stringstream ss(text); std::string tok;
    while (ss >> tok) {
        int best = -1;
        for (int k = 0; k < NKINDS; k++) { size_t n = strlen(kname[k]); if (tok.compare(0, n, kname[k]) == 0 && tok.size() > n && isdigit((unsigned char)tok[n]) && (best < 0 || n > strlen(kname[best]))) best = k; }
        if (best < 0) return false;
        h.push_back(Op{best, atoi(tok.c_str() + strlen(kname[best]))});
    }
    return true;
}

template<typename T> std::string show(const T &v) { return std::to_string(v); }
template<> std::string show<std::string>(const std::string &v) { return "'" + (v.size() > 12 ? v.substr(0, 6) + ".." + std::to_string(v.size()) : v) + "'"; }

// ---- domains
struct IntDom {
    using T = int; using Eq = std::equal_to<int>; static constexpr const char *name = "int"; static constexpr bool arithmetic = true, default_eq = true;
    static std::vector<T> values() { return {-2, -1, 0, 1, 2}; }
    static std::vector<T> initials() { return {0, 2, -1}; }
    static std::vector<double> wide() { return {2.5, -1.5, 2.0, 0.9, -0.4}; }
    static Eq eq() { return {}; }
    static bool in_bounds(const T &v) { return v >= -1000 && v <= 1000; }
    static bool can_div(const T &v) { return v != 0; }
};
struct FloatDom {
    using T = float; using Eq = NearEq; static constexpr const char *name = "float"; static constexpr bool arithmetic = true, default_eq = false;
    static std::vector<T> values() { return {0.25f, 1.0f, -1.0f, 0.5f, 2.0f}; }
    static std::vector<T> initials() { return {0.0f, 1.0f}; }
    static std::vector<double> wide() { return {0.25, 1.0000000001, 2.0}; }
    static Eq eq() { return NearEq{0.5f}; }
    static bool in_bounds(const T &v) { return std::fabs(v) <= 64.0f && std::fabs(v * 64.0f) == std::floor(std::fabs(v * 64.0f)); }   // keeps float arithmetic exact
    static bool can_div(const T &v) { return v != 0.0f; }
};
// tolerance wider than one ++/-- step: "increment and decrement always notify" is only observable with such a comparator
struct WideFloatDom {
    using T = float; using Eq = NearEq; static constexpr const char *name = "widefloat"; static constexpr bool arithmetic = true, default_eq = false;
    static std::vector<T> values() { return {0.25f, 1.0f, -1.0f, 2.0f, 4.0f}; }
    static std::vector<T> initials() { return {0.0f, 1.0f}; }
    static std::vector<double> wide() { return {0.25, 4.0}; }
    static Eq eq() { return NearEq{1.5f}; }
    static bool in_bounds(const T &v) { return FloatDom::in_bounds(v); }
    static bool can_div(const T &v) { return v != 0.0f; }
};
struct BucketDom {
    using T = int; using Eq = BucketEq; static constexpr const char *name = "bucketint"; static constexpr bool arithmetic = true, default_eq = false;
    static std::vector<T> values() { return {-2, -1, 0, 1, 2, 5}; }
    static std::vector<T> initials() { return {0, 3, -1}; }
    static std::vector<double> wide() { return {2.5, 5.0}; }
    static Eq eq() { return {}; }
    static bool in_bounds(const T &v) { return v >= -1000 && v <= 1000; }
    static bool can_div(const T &v) { return v != 0; }
};
// default equality, but values so large that +1 / -1 is not representable: ++ leaves the value unchanged and must still notify
struct BigFloatDom {
    using T = float; using Eq = std::equal_to<float>; static constexpr const char *name = "bigfloat"; static constexpr bool arithmetic = true, default_eq = true;
    static std::vector<T> values() { return {16777216.0f, 1.0f, -16777216.0f, 2.0f}; }
    static std::vector<T> initials() { return {16777216.0f, -16777216.0f, 16777215.0f}; }
    static std::vector<double> wide() { return {16777217.0, 16777216.0, 1.0000000001, -16777217.0}; }      // doubles that round to a float already in play
    static Eq eq() { return {}; }
    static bool in_bounds(const T &v) { return std::fabs(v) <= 134217728.0f && v == std::floor(v); }
    static bool can_div(const T &v) { return v != 0.0f; }
};
const std::string LONGSTR(40, 'L');
struct StrDom {
    using T = std::string; using Eq = std::equal_to<std::string>; static constexpr const char *name = "string"; static constexpr bool arithmetic = false, default_eq = true;
    static std::vector<T> values() { return {"", "a", "ab", LONGSTR}; }
    static std::vector<T> initials() { return {"", "a"}; }
    static std::vector<const char *> wide() { return {"", "a", "ab"}; }
    static Eq eq() { return {}; }
    static bool in_bounds(const T &v) { return v.size() <= 90; }
    static bool can_div(const T &) { return false; }
};

// a string Observable whose equality is coarser than identity: strings are equal when they agree after trailing blanks are dropped
struct TrimEq { bool operator()(const std::string &a, const std::string &b) const { auto t = [](std::string s) { while (!s.empty() && s.back() == ' ') s.pop_back(); return s; }; return t(a) == t(b); } };
struct TrimStrDom {
    using T = std::string; using Eq = TrimEq; static constexpr const char *name = "trimstring"; static constexpr bool arithmetic = false, default_eq = false;
    static std::vector<T> values() { return {"", " ", "a", "a ", "  "}; }
    static std::vector<T> initials() { return {"", "a"}; }
    static std::vector<const char *> wide() { return {" ", "a "}; }
    static Eq eq() { return {}; }
    static bool in_bounds(const T &v) { return v.size() <= 12; }
    static bool can_div(const T &) { return false; }
};

template<typename D> struct Sys {
    using T = typename D::T;
    // domains with the default equality instantiate Observable<T> as a user would (the default comparator is part of what is checked)
    using Obs = std::conditional_t<D::default_eq, Observable<T>, Observable<T, typename D::Eq>>;
    struct Note { int sub; T v; };
    std::vector<Note> log;
    // model
    T mval; bool active[2]; int order[2]; int order_counter; T held[2];
    bool abandoned = false;      // the history left the value bounds

    void bad(const std::string &sig, const std::string &msg) { violation(sig, msg); }

    bool pre(const Op &o) {
        auto vals = D::values();
        switch (o.kind) {
        case ASSIGN: case APPLY_SET: return o.arg < (int)vals.size();
        case ASSIGNW: return o.arg < (int)D::wide().size();
        case MOVERT: return o.arg == 0;
        case ADD: return o.arg < (int)vals.size();
        case SUB: case MUL: return D::arithmetic && o.arg < (int)vals.size();
        case DIV: return D::arithmetic && o.arg < (int)vals.size() && D::can_div(vals[o.arg]);
        case PREINC: case POSTINC: case PREDEC: case POSTDEC: return D::arithmetic && o.arg == 0;
        case APPLY_ID: case APPLY_ADD: return o.arg == 0;
        case SUBSCRIBE: return o.arg < 2 && !active[o.arg];
        case UNSUBSCRIBE: return o.arg < 2 && active[o.arg];
        }
        return false;
    }

    void expect(bool notify, const T &post, const char *what) {
        std::vector<Note> want;
        if (notify) { int idx[2] = {0, 1}; if (order[1] < order[0]) std::swap(idx[0], idx[1]); for (int i : idx) if (active[i]) want.push_back(Note{i, post}); }
        bool same = want.size() == log.size();
        for (size_t i = 0; same && i < want.size(); i++) same = want[i].sub == log[i].sub && want[i].v == log[i].v;
        if (!same) {
            std::string a, b; for (auto &n : log) a += fmt("sub%d<-%s ", n.sub, show(n.v).c_str()); for (auto &n : want) b += fmt("sub%d<-%s ", n.sub, show(n.v).c_str());
            bad("model:notifications", fmt("%s: subscribers received [%s], expected [%s] (exactly one notification with the new value per subscriber iff the value changed)", what, a.c_str(), b.c_str()));
        }
        for (auto &n : log) held[n.sub] = n.v;
    }

    void apply(Obs &x, typename Obs::Subject_t::Subscription_t subs[2], const Op &o, bool check) {
        auto vals = D::values();
        auto eq = D::eq();
        log.clear();
        T old = mval;
        auto changed = [&](const T &nv) { return !eq(old, nv); };
        switch (o.kind) {
        case ASSIGN: { T v = vals[o.arg]; Obs &r = (x = v); bool ch = changed(v); if (ch) mval = v; if (check) { expect(ch, mval, "operator="); if (&r != &x) bad("model:return", "operator= did not return *this"); } break; }
        case ASSIGNW: { auto w = D::wide()[o.arg]; T v = static_cast<T>(w); Obs &r = (x = w); bool ch = changed(v); if (ch) mval = v;
                        if (check) { expect(ch, mval, "operator= from a value of another type"); if (&r != &x) bad("model:return", "operator= did not return *this"); } break; }
        case MOVERT: { Obs y(std::move(x)); if (check && !(y.value() == mval)) bad("model:move", "the move-constructed Observable does not hold the value"); x = std::move(y); if (check) expect(false, mval, "move round trip"); break; }
        case ADD: { T v = vals[o.arg]; T nv = old; nv += v; if (!D::in_bounds(nv)) { abandoned = true; return; } x += v; mval = nv; if (check) expect(changed(nv), nv, "operator+="); break; }
        case SUB: if constexpr (D::arithmetic) { T v = vals[o.arg]; T nv = old; nv -= v; if (!D::in_bounds(nv)) { abandoned = true; return; } x -= v; mval = nv; if (check) expect(changed(nv), nv, "operator-="); } break;
        case MUL: if constexpr (D::arithmetic) { T v = vals[o.arg]; T nv = old; nv *= v; if (!D::in_bounds(nv)) { abandoned = true; return; } x *= v; mval = nv; if (check) expect(changed(nv), nv, "operator*="); } break;
        case DIV: if constexpr (D::arithmetic) { T v = vals[o.arg]; T nv = old; nv /= v; if (!D::in_bounds(nv)) { abandoned = true; return; } x /= v; mval = nv; if (check) expect(changed(nv), nv, "operator/="); } break;
        case PREINC: if constexpr (D::arithmetic) { T nv = old; ++nv; if (!D::in_bounds(nv)) { abandoned = true; return; } T &r = ++x; mval = nv; if (check) { expect(true, nv, "prefix ++"); if (&r != &x.value() || !(r == nv)) bad("model:return", "prefix ++ did not return a reference to the new value"); } } break;
        case POSTINC: if constexpr (D::arithmetic) { T nv = old; ++nv; if (!D::in_bounds(nv)) { abandoned = true; return; } T r = x++; mval = nv; if (check) { expect(true, nv, "postfix ++"); if (!(r == old)) bad("model:return", "postfix ++ did not return the previous value"); } } break;
        case PREDEC: if constexpr (D::arithmetic) { T nv = old; --nv; if (!D::in_bounds(nv)) { abandoned = true; return; } T &r = --x; mval = nv; if (check) { expect(true, nv, "prefix --"); if (&r != &x.value() || !(r == nv)) bad("model:return", "prefix -- did not return a reference to the new value"); } } break;
        case POSTDEC: if constexpr (D::arithmetic) { T nv = old; --nv; if (!D::in_bounds(nv)) { abandoned = true; return; } T r = x--; mval = nv; if (check) { expect(true, nv, "postfix --"); if (!(r == old)) bad("model:return", "postfix -- did not return the previous value"); } } break;
        case APPLY_ID: x.apply([](T &) {}); if (check) expect(false, mval, "apply(identity)"); break;
        case APPLY_SET: { T v = vals[o.arg]; x.apply([v](T &t) { t = v; }); mval = v; if (check) expect(changed(v), v, "apply(set)"); break; }
        case APPLY_ADD: { T nv = old; if constexpr (D::arithmetic) nv += T(1); else nv += "c"; if (!D::in_bounds(nv)) { abandoned = true; return; }
                          x.apply([](T &t) { if constexpr (D::arithmetic) t += T(1); else t += "c"; }); mval = nv; if (check) expect(changed(nv), nv, "apply(add)"); break; }
        case SUBSCRIBE: { int i = o.arg; Sys *self = this; subs[i] = x.subscribe([self, i](const T &v) { self->log.push_back(Note{i, v}); }); active[i] = true; order[i] = order_counter++; held[i] = mval;
                          if (check) expect(false, mval, "subscribe"); break; }
        case UNSUBSCRIBE: subs[o.arg].unsubscribe(); active[o.arg] = false; if (check) expect(false, mval, "unsubscribe"); break;
        }
        if (check) {
            if (!(x.value() == mval)) bad("model:value", fmt("value() == %s after %s, expected %s", show(x.value()).c_str(), kname[o.kind], show(mval).c_str()));
            if (!(*x == mval)) bad("model:value", "operator* disagrees with the model value");
            if (D::default_eq) for (int i = 0; i < 2; i++) if (active[i] && !(held[i] == x.value()))
                bad("model:subscriber-out-of-date", fmt("subscriber %d last saw %s but value() is %s", i, show(held[i]).c_str(), show(x.value()).c_str()));
        }
    }

    // returns the key of the reached state, "" if the history leaves the bounds
    std::string step(int init, const std::vector<Op> &h, const Op *o, bool &okp) {
        T iv = D::initials()[init];
        auto make = [&] { if constexpr (D::default_eq) return Obs(iv); else return Obs(iv, D::eq()); };
        Obs x = make();
        typename Obs::Subject_t::Subscription_t subs[2];
        mval = iv; active[0] = active[1] = false; order[0] = order[1] = 0; order_counter = 0; abandoned = false; held[0] = held[1] = iv;
        for (auto &p : h) apply(x, subs, p, false);
        okp = !o || pre(*o);
        if (o && okp) apply(x, subs, *o, true);
        if (!okp || abandoned) return "";
        std::string k = fmt("%s|%s|%d%d|%d|", D::name, show(x.value()).c_str(), active[0], active[1], active[0] && active[1] ? order[0] < order[1] : 0);
        if (!D::default_eq) for (int i = 0; i < 2; i++) if (active[i]) k += show(held[i]) + ",";
        if constexpr (std::is_same_v<T, std::string>) k += std::to_string(x.value().size());
        return k;
    }
};

template<typename D> void bfs(int maxdepth) {
    std::vector<Op> alpha;
    int nv = (int)D::values().size();
    for (int v = 0; v < nv; v++) for (int k : {ASSIGN, ADD, SUB, MUL, DIV, APPLY_SET}) alpha.push_back(Op{k, v});
    for (int k : {PREINC, POSTINC, PREDEC, POSTDEC, APPLY_ID, APPLY_ADD}) alpha.push_back(Op{k, 0});
    for (int v = 0; v < (int)D::wide().size(); v++) alpha.push_back(Op{ASSIGNW, v});
    alpha.push_back(Op{MOVERT, 0});
    for (int i = 0; i < 2; i++) { alpha.push_back(Op{SUBSCRIBE, i}); alpha.push_back(Op{UNSUBSCRIBE, i}); }
    Sys<D> sys;
    for (int init = 0; init < (int)D::initials().size(); init++) {
        std::string prefix = fmt("type=%s init=%d :", D::name, init);
        auto hs = [&](const std::vector<Op> &h, const Op *o) { std::string s = prefix; for (auto &p : h) s += " " + op_str(p); if (o) s += " " + op_str(*o); return s; };
        std::set<std::string> seen; std::deque<std::vector<Op>> frontier;
        bool okp; mark(hs({}, nullptr));
        seen.insert(sys.step(init, {}, nullptr, okp)); shm->states++; frontier.push_back({});
        while (!frontier.empty()) {
            if (deadline_passed()) { shm->exhaustive = 0; return; }
            auto h = std::move(frontier.front()); frontier.pop_front();
            for (auto &o : alpha) {
                mark(hs(h, &o));
                std::string k = sys.step(init, h, &o, okp);
                if (!okp || k.empty()) continue;
                shm->transitions++; shm->evaluations++;
                if (!sys.log.empty()) shm->nontrivial++;
                if ((int)h.size() + 1 < maxdepth && seen.insert(k).second) { shm->states++; auto h2 = h; h2.push_back(o); if (shm->states % 401 == 3) sample(hs(h, &o) + "  => state " + k); frontier.push_back(std::move(h2)); }
            }
        }
    }
}


// ---- re-entrant histories: a subscriber that assigns to the Observable from inside its callback.  The property's last sentence is the oracle: with the default equality a
// recording subscriber always holds the current value() - here: every notification a recorder receives carries the value() of that moment, and after each top-level operation
// every recorder that was notified holds value().  How many notifications a recorder gets when rounds nest is not constrained.
template<typename D> struct ReSys {
    using T = typename D::T;
    // domains with the default equality instantiate Observable<T> as a user would (the default comparator is part of what is checked)
    using Obs = std::conditional_t<D::default_eq, Observable<T>, Observable<T, typename D::Eq>>;
    // subscriber kinds in subscription order: 'r' recorder, 's' setter (assigns K from inside its callback)
    static void run(const std::string &order, int kidx, int init, const std::vector<Op> &ops, const std::string &hist) {
        auto vals = D::values();
        T K = vals[kidx];
        auto make = [&] { if constexpr (D::default_eq) return Obs(D::initials()[init]); else return Obs(D::initials()[init], D::eq()); };
        Obs x = make();
        struct Rec { bool got = false; T last{}; };
        std::vector<Rec> recs(order.size());
        std::vector<typename Obs::Subject_t::Subscription_t> subs(order.size());
        int depth = 0; bool stale = false; std::string stale_msg;
        for (size_t i = 0; i < order.size(); i++) {
            if (order[i] == 'r') subs[i] = x.subscribe([&, i](const T &v) {
                recs[i].got = true; recs[i].last = v;
                if (!(v == x.value()) && !stale) { stale = true; stale_msg = fmt("subscriber %zu was notified with %s while value() is %s", i, show(v).c_str(), show(x.value()).c_str()); }
            });
            else subs[i] = x.subscribe([&](const T &) { if (depth < 4) { depth++; x = K; depth--; } });
        }
        bool has_setter = order.find('s') != std::string::npos;
        T mval = D::initials()[init];
        for (size_t oi = 0; oi < ops.size(); oi++) {
            const Op &o = ops[oi];
            for (auto &r : recs) r.got = false;
            T old = mval, nv = old; bool notify = false;
            switch (o.kind) {
            case ASSIGN: nv = vals[o.arg]; notify = !(old == nv); x = nv; break;
            case ADD: nv += vals[o.arg]; if (!D::in_bounds(nv)) return; notify = !(old == nv); x += vals[o.arg]; break;
            case APPLY_SET: nv = vals[o.arg]; notify = !(old == nv); { T v = nv; x.apply([v](T &t) { t = v; }); } break;
            case PREINC: if constexpr (D::arithmetic) { ++nv; if (!D::in_bounds(nv)) return; notify = true; ++x; } break;
            case POSTDEC: if constexpr (D::arithmetic) { --nv; if (!D::in_bounds(nv)) return; notify = true; x--; } break;
            default: return;
            }
            mval = notify && has_setter ? K : nv;
            shm->transitions++; shm->evaluations++; if (notify) shm->nontrivial++;
            std::string what = fmt("after top-level operation #%zu (%s)", oi + 1, op_str(o).c_str());
            if (!(x.value() == mval)) violation("reentrant:value", fmt("%s value() == %s, expected %s", what.c_str(), show(x.value()).c_str(), show(mval).c_str()), hist);
            if (stale) violation("reentrant:stale-notification", what + ": " + stale_msg + " (every notification must carry the current value)", hist);
            for (size_t i = 0; i < order.size(); i++) if (order[i] == 'r') {
                if (recs[i].got != notify) violation("reentrant:notified", fmt("%s subscriber %zu was %snotified, expected %s", what.c_str(), i, recs[i].got ? "" : "not ", notify ? "a notification" : "none"), hist);
                if (recs[i].got && !(recs[i].last == x.value())) violation("reentrant:subscriber-out-of-date", fmt("%s subscriber %zu last saw %s but value() is %s", what.c_str(), i, show(recs[i].last).c_str(), show(x.value()).c_str()), hist);
            }
            stale = false;
        }
    }
};

template<typename D> void reentrant(int maxops) {
    std::vector<Op> alpha;
    int nv = (int)D::values().size();
    for (int v = 0; v < nv; v++) for (int k : {ASSIGN, ADD, APPLY_SET}) alpha.push_back(Op{k, v});
    if (D::arithmetic) { alpha.push_back(Op{PREINC, 0}); alpha.push_back(Op{POSTDEC, 0}); }
    for (const char *order : {"s", "sr", "rs", "rsr", "srr", "rrs", "ss", "srs"}) for (int k = 0; k < nv; k++) for (int init = 0; init < (int)D::initials().size(); init++) {
        std::vector<std::vector<Op>> hs{{}};
        for (size_t qi = 0; qi < hs.size(); qi++) {
            if (deadline_passed()) { shm->exhaustive = 0; return; }
            auto h = hs[qi];
            if ((int)h.size() < maxops) for (auto &o : alpha) { auto h2 = h; h2.push_back(o); hs.push_back(h2); }
            if (h.empty()) continue;
            std::string hist = fmt("reentrant type=%s order=%s k=%d init=%d :", D::name, order, k, init); for (auto &o : h) hist += " " + op_str(o);
            mark(hist);
            ReSys<D>::run(order, k, init, h, hist);
            shm->states++;
        }
    }
}

void explore() {
    int depth = thorough() ? 8 : 6;
    bfs<IntDom>(depth); bfs<FloatDom>(depth); bfs<StrDom>(thorough() ? 6 : 5);
    bfs<WideFloatDom>(depth - 1); bfs<BucketDom>(depth - 1); bfs<BigFloatDom>(depth - 1); bfs<TrimStrDom>(thorough() ? 5 : 4);
    reentrant<IntDom>(thorough() ? 4 : 3); reentrant<StrDom>(thorough() ? 4 : 3);
    shm->validated = shm->transitions;
    sx::detail(fmt("breadth-first search over histories of =, = from a value of another type (double for the numeric Observables, a string literal for the string one), +=, -=, *=, /=, ++x, x++, --x, x--, apply(identity/set/add), subscribe, unsubscribe (2 subscriber slots) from several initial values for Observable<int>, "
                   "Observable<float, NearEq(0.5)>, Observable<std::string>, Observable<std::string, equal-after-trimming-trailing-blanks>, and (one level shallower) Observable<float, NearEq(1.5)> and Observable<int, same-bucket-of-4> whose equality is coarser than one ++/-- step and Observable<float> around 2^24 where +-1 is not representable; states are merged on (stored value, subscriber set and order, values last seen by the subscribers); every state reachable within depth %d is expanded "
                   "(value magnitude bounded so that int/float arithmetic stays exact); plus re-entrant histories: subscriber orders {s, sr, rs, rsr, srr, rrs, ss, srs} (r = recorder, s = subscriber that assigns a constant K to the Observable from inside its callback) x every K x every sequence of <= %d top-level operations for int and string: every notification carries the then-current value() and every notified recorder holds value() afterwards", depth, thorough() ? 4 : 3));
}

void replay(const std::string &hist) {
    char ty[32]; int init;
    if (hist.compare(0, 10, "reentrant ") == 0) {
        char ord[16]; int k;
        if (sscanf(hist.c_str(), "reentrant type=%31s order=%15s k=%d init=%d :", ty, ord, &k, &init) != 4) { violation("replay:parse", "cannot parse " + hist); return; }
        std::vector<Op> h; if (!parse_ops(hist.substr(hist.find(':') + 1), h)) { violation("replay:parse", "cannot parse ops in " + hist); return; }
        if (std::string(ty) == "int") ReSys<IntDom>::run(ord, k, init, h, hist); else ReSys<StrDom>::run(ord, k, init, h, hist);
        return;
    }
    if (sscanf(hist.c_str(), "type=%31s init=%d :", ty, &init) != 2) { violation("replay:parse", "cannot parse " + hist); return; }
    std::vector<Op> h;
    if (!parse_ops(hist.substr(hist.find(':') + 1), h)) { violation("replay:parse", "cannot parse ops in " + hist); return; }
    auto go = [&](auto sys) { bool okp; if (h.empty()) { sys.step(init, {}, nullptr, okp); return; } Op last = h.back(); std::vector<Op> pre(h.begin(), h.end() - 1); sys.step(init, pre, &last, okp); };
    std::string t = ty;
    if (t == "int") go(Sys<IntDom>{}); else if (t == "float") go(Sys<FloatDom>{}); else if (t == "widefloat") go(Sys<WideFloatDom>{}); else if (t == "bucketint") go(Sys<BucketDom>{});
    else if (t == "bigfloat") go(Sys<BigFloatDom>{}); else if (t == "trimstring") go(Sys<TrimStrDom>{}); else go(Sys<StrDom>{});
}
}  // namespace

int main(int argc, char **argv) {
    Harness h;
    h.name = "observable";
    h.rule = "explicit-state search: a state is an operation history replayed on a fresh real Observable, keyed by the stored value, the subscriber set/order and what each subscriber last received; every operation of the alphabet is applied in "
             "every state reachable within the depth bound and the notifications each subscriber receives, return values and value() are compared with the model (one notification with the post-value per subscriber iff !eq(old,new); "
             "++/-- always; an eq-equal assignment keeps the stored value); non-trivial = a step that delivered a notification";
    h.assumptions = {"values stay within bounds where int and float arithmetic is exact (no overflow, no rounding)", "depth bound as stated; state merging relies on Observable having no state besides value, comparator and subscribers"};
    h.explore = explore; h.replay = replay;
    return run_main(argc, argv, h);
}
