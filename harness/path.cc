// E2 harness for tulz::Path and tulz::DirectoryVisitor: C18, on generated directory trees in a tmpfs scratch directory.
#include <tulz/Path.h>
#include <tulz/DirectoryVisitor.h>
#include <tulz/Exception.h>

#include <filesystem>
#include <set>
#include <string>
#include <vector>

#include "seqx.h"

using namespace sx;
using tulz::Path;
namespace fs = std::filesystem;

namespace {
void bad(const std::string &sig, const std::string &msg) { violation(sig, msg); }

// ------------------------------------------------------------------ trees
struct Node { bool dir; size_t size; std::vector<Node> kids; };
typedef std::vector<Node> Forest;
// sibling names rotate through this list, starting at g_name_offset (every forest is built once per offset, so every name occurs at every position)
const char *NAMES[] = {"a", "b c", ".h", "\xc3\xa9", "..a", "...", "a-name-longer-than-any-small-string-buffer.ext"};
const int NNAMES = 7;
int g_name_offset = 0;
const size_t SIZES[] = {0, 1, 4097};

std::string enc(const Forest &f) {
    std::string s;
    for (auto &n : f) { if (!s.empty()) s += " "; s += n.dir ? "d(" + enc(n.kids) + ")" : "f" + std::to_string(n.size); }
    return s;
}
bool dec(const std::string &s, size_t &i, Forest &f) {
    for (;;) {
        while (i < s.size() && s[i] == ' ') i++;
        if (i >= s.size() || s[i] == ')') return true;
        if (s[i] == 'f') { i++; size_t v = 0; while (i < s.size() && isdigit((unsigned char)s[i])) v = v * 10 + (s[i++] - '0'); f.push_back(Node{false, v, {}}); }
        else if (s[i] == 'd' && i + 1 < s.size() && s[i + 1] == '(') { i += 2; Node n{true, 0, {}}; if (!dec(s, i, n.kids)) return false; if (i >= s.size() || s[i] != ')') return false; i++; f.push_back(n); }
        else return false;
    }
}

// all forests with exactly `n` entries, depth <= d, at most 4 siblings
void gen(int n, int d, std::vector<Forest> &out) {
    out.clear();
    if (n == 0) { out.push_back({}); return; }
    if (d == 0) return;
    // first tree uses k entries (1 + its descendants), the rest of the forest n-k
    for (int k = 1; k <= n; k++) {
        std::vector<Node> firsts;
        if (k == 1) { for (size_t s : SIZES) firsts.push_back(Node{false, s, {}}); firsts.push_back(Node{true, 0, {}}); }
        else { std::vector<Forest> sub; gen(k - 1, d - 1, sub); for (auto &f : sub) if (!f.empty()) firsts.push_back(Node{true, 0, f}); }
        std::vector<Forest> rest; gen(n - k, d, rest);
        for (auto &a : firsts) for (auto &r : rest) { if (r.size() >= 4) continue; Forest f; f.push_back(a); f.insert(f.end(), r.begin(), r.end()); out.push_back(f); }
    }
}

void materialize(const Forest &f, const std::string &dir, int depth) {
    for (size_t i = 0; i < f.size(); i++) {
        std::string p = dir + "/" + NAMES[(i + depth + g_name_offset) % NNAMES];
        if (f[i].dir) { fs::create_directory(p); materialize(f[i].kids, p, depth + 1); }
        else { std::ofstream o(p, std::ios::binary); std::string data(f[i].size, 'x'); o.write(data.data(), (std::streamsize)data.size()); }
    }
}

size_t fs_size(const fs::path &p) {
    if (fs::is_regular_file(p)) return fs::file_size(p);
    size_t s = 0;
    for (auto &e : fs::recursive_directory_iterator(p)) if (e.is_regular_file()) s += e.file_size();
    return s;
}

// compare every query of tulz::Path on the path string `s` with std::filesystem on the same string
void check_path(const std::string &s) {
    shm->transitions++;
    Path p(s);
    std::error_code ec;
    bool ex = fs::exists(s, ec), isf = fs::is_regular_file(s, ec), isd = fs::is_directory(s, ec);
    if (p.exists() != ex) bad("fs:exists", fmt("exists(\"%s\") == %d, filesystem says %d", s.c_str(), p.exists(), ex));
    if (p.isFile() != isf) bad("fs:isFile", fmt("isFile(\"%s\") == %d, filesystem says %d", s.c_str(), p.isFile(), isf));
    if (p.isDirectory() != isd) bad("fs:isDirectory", fmt("isDirectory(\"%s\") == %d, filesystem says %d", s.c_str(), p.isDirectory(), isd));
    if (p.toString() != s) bad("fs:toString", "toString() does not return the stored path");
    if (ex) {
        size_t want = fs_size(s), got = 0; bool threw = false;
        try { got = p.size(); } catch (...) { threw = true; }
        if (threw || got != want) bad("fs:size", fmt("size(\"%s\") == %zu%s, filesystem says %zu (sum of the regular files beneath it)", s.c_str(), got, threw ? " (threw)" : "", want));
    } else {
        bool ok = false; try { (void)p.size(); } catch (const tulz::Exception &e) { ok = e.type == Path::NotFound; } catch (...) {}
        if (!ok) bad("fs:size-missing", fmt("size(\"%s\") on a missing path did not throw NotFound", s.c_str()));
        ok = false; try { (void)p.listChildren(); } catch (const tulz::Exception &e) { ok = e.type == Path::NotFound; } catch (...) {}
        if (!ok) bad("fs:list-missing", fmt("listChildren(\"%s\") on a missing path did not throw NotFound", s.c_str()));
    }
    if (isd) {
        std::multiset<std::string> want, got;
        for (auto &e : fs::directory_iterator(s)) want.insert(e.path().filename().string());
        try { for (auto &c : p.listChildren()) got.insert(c.toString()); } catch (...) { bad("fs:list-threw", fmt("listChildren(\"%s\") threw on a directory", s.c_str())); }
        if (got != want) { std::string a, b; for (auto &x : got) a += "'" + x + "' "; for (auto &x : want) b += "'" + x + "' "; bad("fs:listChildren", fmt("listChildren(\"%s\") returned {%s}, directory holds {%s}", s.c_str(), a.c_str(), b.c_str())); }
    } else if (isf) {
        bool ok = false; try { (void)p.listChildren(); } catch (const tulz::Exception &e) { ok = e.type == Path::NotDirectory; } catch (...) {}
        if (!ok) bad("fs:list-file", fmt("listChildren(\"%s\") on a regular file did not throw NotDirectory", s.c_str()));
    }
}

std::string cwd() { return fs::current_path().string(); }

void check_visitor(const std::string &dir_abs, const std::string &dir_rel, const std::string &other_abs) {
    std::string home = cwd();
    auto canon = [](const std::string &p) { std::error_code ec; auto c = fs::canonical(p, ec); return ec ? std::string("?") : c.string(); };
    for (const std::string &d : {dir_abs, dir_rel}) {
        std::string target = canon(d);
        { tulz::DirectoryVisitor v{Path(d)}; shm->transitions++;
          if (cwd() != target) bad("visitor:enter", fmt("inside DirectoryVisitor(\"%s\") the working directory is %s, expected %s", d.c_str(), cwd().c_str(), target.c_str()));
          if (v.get().toString() != d) bad("visitor:get", "get() does not return the directory");
          { tulz::DirectoryVisitor w; w.set(Path(other_abs)); w.visit(); shm->transitions++;        // nested, LIFO
            if (cwd() != canon(other_abs)) bad("visitor:nested-enter", "nested visitor did not enter its directory"); }
          if (cwd() != target) bad("visitor:nested-restore", fmt("after the nested visitor was destroyed the working directory is %s, expected %s", cwd().c_str(), target.c_str())); }
        if (cwd() != home) { bad("visitor:restore", fmt("after DirectoryVisitor(\"%s\") was destroyed the working directory is %s, expected %s", d.c_str(), cwd().c_str(), home.c_str())); fs::current_path(home); }
    }
    { tulz::DirectoryVisitor v{Path(dir_abs + "/no-such-directory")}; shm->transitions++; }
    if (cwd() != home) { bad("visitor:restore-missing", "a visitor of a non-existing directory left the working directory changed"); fs::current_path(home); }
    { tulz::DirectoryVisitor v; }
    if (cwd() != home) { bad("visitor:restore-empty", "an unused visitor changed the working directory"); fs::current_path(home); }
    { tulz::DirectoryVisitor v{Path(dir_rel)}; v.restore(); if (cwd() != home) bad("visitor:explicit-restore", "restore() did not return to the previous directory"); }
    if (cwd() != home) fs::current_path(home);
    // a visitor that has entered a directory and is then pointed at another one without visiting it still goes back where it came from
    { tulz::DirectoryVisitor v{Path(dir_abs)}; shm->transitions++; v.set(Path(other_abs)); }
    if (cwd() != home) { bad("visitor:set-after-visit", fmt("a visitor that had entered %s and was then given another directory with set() left the working directory at %s when it was destroyed", dir_abs.c_str(), cwd().c_str())); fs::current_path(home); }
    { tulz::DirectoryVisitor v{Path(dir_abs)}; v.set(Path(other_abs)); v.restore(); if (cwd() != home) bad("visitor:set-after-visit", "restore() after visit() and set() did not return to the previous directory"); }
    if (cwd() != home) fs::current_path(home);
    // one visitor object used twice: the second visit starts from another working directory, and that is the one to come back to
    {
        std::string d1 = canon(dir_abs);        // (the harness runs with the tree's root as working directory: the second visit starts from inside the directory and goes to the root)
        {
            tulz::DirectoryVisitor v{Path(dir_abs)}; shm->transitions++;
            v.restore();
            if (cwd() != home) bad("visitor:explicit-restore", "restore() did not return to the previous directory");
            fs::current_path(dir_abs);
            v.set(Path(other_abs)); v.visit(); shm->transitions++;
            if (cwd() != canon(other_abs)) bad("visitor:reuse-enter", "a re-used visitor did not enter its directory");
        }
        if (cwd() != d1) bad("visitor:reuse-restore", fmt("a visitor that was used a second time, from %s, left the working directory at %s when it was destroyed", d1.c_str(), cwd().c_str()));
        fs::current_path(home);
    }
}

void walk(const Forest &f, const std::string &abs, const std::string &rel, int depth, const std::string &root_abs) {
    for (size_t i = 0; i < f.size(); i++) {
        std::string name = NAMES[(i + depth + g_name_offset) % NNAMES];
        std::string a = abs + "/" + name, r = rel.empty() ? name : rel + "/" + name;
        for (const std::string &s : {a, r, a + "/", r + "/", "./" + r}) check_path(s);
        if (f[i].dir) { check_visitor(a, r, root_abs); walk(f[i].kids, a, r, depth + 1, root_abs); }
    }
    // a sibling that does not exist
    check_path(abs + "/missing"); check_path((rel.empty() ? std::string() : rel + "/") + "missing");
}

void run_tree(const Forest &f, const std::string &scratch) {
    std::string root = scratch + "/root";
    fs::remove_all(root); fs::create_directory(root);
    materialize(f, root, 0);
    fs::current_path(root);
    int fds_before = open_fds();
    for (const std::string &s : {root, std::string("."), root + "/"}) check_path(s);
    walk(f, root, "", 0, root);
    // the queries must not use up the process: a descriptor kept open per call makes every query fail once the limit is reached ("any fan-out")
    if (int leaked = open_fds() - fds_before; leaked > 0) bad("fs:descriptor-leak", fmt("%d file descriptor(s) are still open after the queries on this tree (exists/isFile/isDirectory/size/listChildren/DirectoryVisitor must release what they open)", leaked));
    if (Path::getWorkingDirectory().toString() != root) bad("fs:getWorkingDirectory", "getWorkingDirectory() differs from the real working directory");
    fs::current_path(scratch);
}


// ------------------------------------------------------------------ working directories with long absolute paths
// "any depth": the absolute path of the working directory gets a chosen total length L (each component stays far below NAME_MAX, the whole path
// below PATH_MAX); getWorkingDirectory, the relative-path queries and DirectoryVisitor are checked from there.
void spit_file(const std::string &p, size_t n) { std::ofstream o(p, std::ios::binary); std::string data(n, 'x'); o.write(data.data(), (std::streamsize)data.size()); }

void deep_cwd(size_t L, const std::string &scratch) {
    std::string base = scratch + fmt("/deep%zu", L);
    fs::remove_all(base); fs::create_directories(base); fs::current_path(base);
    std::string want = base;
    while (want.size() < L) {
        size_t room = L - want.size();                     // includes the separator
        size_t n = std::min<size_t>(100, room - 1);
        if (room - 1 - n == 1) n--;                        // never leave a remainder of 1 (a separator without a name)
        if (n == 0) break;
        std::string comp(n, (char)('a' + (want.size() % 7)));
        if (mkdir(comp.c_str(), 0755) != 0 || chdir(comp.c_str()) != 0) { bad("deep:setup", fmt("cannot create a working directory of length %zu", L)); fs::current_path(scratch); return; }
        want += "/" + comp;
    }
    std::string home = cwd();
    if (home != want || home.size() != L) { bad("deep:setup", fmt("working directory has length %zu, wanted %zu", home.size(), L)); fs::current_path(scratch); return; }
    shm->transitions++;
    std::string got = Path::getWorkingDirectory().toString();
    if (got != home) bad("deep:getWorkingDirectory", fmt("getWorkingDirectory() returned a string of %zu bytes ('%.40s...'), the working directory has %zu bytes", got.size(), got.c_str(), home.size()));
    spit_file("f", 3); fs::create_directory("sub"); spit_file("sub/g", 1);
    for (const std::string &s : {std::string("f"), std::string("sub"), std::string("sub/g"), std::string("."), std::string("./sub/"), std::string("missing"), home + "/f", home + "/sub"}) check_path(s);
    for (const std::string &d : {scratch, std::string("sub"), std::string(".."), home + "/sub"}) {
        std::error_code ec; std::string target = fs::canonical(d, ec).string();
        { tulz::DirectoryVisitor v{Path(d)}; shm->transitions++;
          if (cwd() != target) bad("deep:visitor-enter", fmt("from a working directory of %zu bytes DirectoryVisitor(\"%.40s\") did not enter its directory", L, d.c_str())); }
        if (cwd() != home) { bad("deep:visitor-restore", fmt("from a working directory of %zu bytes: after DirectoryVisitor(\"%.40s\") was destroyed the working directory is '%.60s' (%zu bytes), not the previous one", L, d.c_str(), cwd().c_str(), cwd().size())); fs::current_path(home); }
    }
    { tulz::DirectoryVisitor v{Path("sub")}; { tulz::DirectoryVisitor w{Path(scratch)}; } if (cwd() != home + "/sub") bad("deep:visitor-nested", "nested visitor did not restore the long inner directory"); }
    if (cwd() != home) { bad("deep:visitor-restore", fmt("from a working directory of %zu bytes: nested visitors did not restore it", L)); }
    fs::current_path(scratch);
    fs::remove_all(base);
}

// ------------------------------------------------------------------ string identities
void string_part() {
    const char *SEG[] = {"a", "b.c", ".", "..", "x y", "\xc3\xa9"};
    std::vector<std::string> dirs = {"", "/", "//"};
    for (int n = 1; n <= 3; n++) {
        std::vector<int> ix(n, 0);
        for (;;) {
            for (int lead = 0; lead < 2; lead++) for (int trail = 0; trail <= 2; trail++) for (int dbl = 0; dbl < (n > 1 ? 2 : 1); dbl++) {
                std::string d = lead ? "/" : "";
                for (int i = 0; i < n; i++) { if (i) d += dbl ? "//" : "/"; d += SEG[ix[i]]; }
                d += std::string(trail, '/');
                dirs.push_back(d);
            }
            int i = 0; while (i < n && ++ix[i] == 6) ix[i++] = 0;
            if (i == n) break;
        }
    }
    for (auto &d : dirs) {
        mark("string d=" + d);
        Path pd(d);
        (void)pd.getPathName(); (void)pd.getParentDirectory(); (void)pd.isAbsolute();      // total: no exception, no out-of-range access
        shm->transitions++; shm->evaluations++;
        if (pd.isAbsolute() != (!d.empty() && d[0] == '/')) bad("str:isAbsolute", "isAbsolute(\"" + d + "\") wrong");
        for (const char *n : SEG) {
            shm->transitions++;
            std::string j = Path::join(d, std::string(n));
            Path pj = Path::join(Path(d), Path(n));
            if (pj.toString() != j) bad("str:join-overloads", "join(Path,Path) and join(string,string) disagree for \"" + d + "\" + \"" + n + "\"");
            if (d.empty()) { if (j != n) bad("str:join-empty", "join(\"\", n) != n"); continue; }
            if (Path(j).getPathName() != n) bad("str:name-of-join", "getPathName(join(\"" + d + "\", \"" + n + "\")) == \"" + Path(j).getPathName() + "\", expected \"" + n + "\"");
            std::string want_parent = d.back() == '/' ? d.substr(0, d.size() - 1) : d;
            if (Path(j).getParentDirectory().toString() != want_parent)
                bad("str:parent-of-join", "getParentDirectory(join(\"" + d + "\", \"" + n + "\")) == \"" + Path(j).getParentDirectory().toString() + "\", expected \"" + want_parent + "\"");
            shm->nontrivial++;
        }
        for (auto &abs : {std::string("/x"), std::string("/"), std::string("/a/b/")}) if (Path::join(d, abs) != abs) bad("str:join-absolute", "join(\"" + d + "\", \"" + abs + "\") != \"" + abs + "\"");
        if (Path::join(d, std::string("p"), std::string("q")) != Path::join(Path::join(d, std::string("p")), std::string("q"))) bad("str:join-variadic", "variadic join is not left-associated");
    }
    shm->states += dirs.size();
    sample("string d=/a//b.c/ with n in {a, b.c, ., .., 'x y', e-acute}");
}

// A Path is a name, not a snapshot: the same object asked again after the filesystem or the working directory changed answers for the world as it is now.
void same_object_again(const std::string &scratch) {
    std::string root = scratch + "/again"; fs::remove_all(root); fs::create_directories(root + "/d1/x"); fs::create_directories(root + "/d2"); fs::create_directories(root + "/d3");
    { std::ofstream o(root + "/d2/x"); o << "file"; }
    auto expect = [&](const Path &p, const char *what, const std::string &hist) {
        std::error_code ec; std::string s = p.toString();
        bool ex = fs::exists(s, ec), isf = fs::is_regular_file(s, ec), isd = fs::is_directory(s, ec);
        shm->evaluations++; shm->transitions++; shm->nontrivial++;
        if (p.exists() != ex || p.isFile() != isf || p.isDirectory() != isd)
            violation("fs:stale-answer", fmt("%s: the same Path object (\"%s\") says exists=%d isFile=%d isDirectory=%d, the filesystem says %d %d %d", what, s.c_str(), p.exists(), p.isFile(), p.isDirectory(), ex, isf, isd), hist);
    };
    std::string hist = "again relative";
    mark(hist);
    { Path rel("x"); fs::current_path(root + "/d1"); expect(rel, "in d1 (x is a directory)", hist); fs::current_path(root + "/d2"); expect(rel, "in d2 (x is a file)", hist); fs::current_path(root + "/d3"); expect(rel, "in d3 (no x)", hist);
      { tulz::DirectoryVisitor v{Path(root + "/d1")}; expect(rel, "inside a DirectoryVisitor of d1", hist); } expect(rel, "after the visitor", hist);
      Path copy = rel; fs::current_path(root + "/d2"); expect(copy, "a copy, in d2", hist); }
    hist = "again absolute";
    mark(hist);
    { Path abs(root + "/d3/y"); expect(abs, "missing", hist); { std::ofstream o(root + "/d3/y"); o << "1"; } expect(abs, "created as a file", hist); fs::remove(root + "/d3/y"); expect(abs, "removed", hist);
      fs::create_directory(root + "/d3/y"); expect(abs, "re-created as a directory", hist); fs::remove(root + "/d3/y"); expect(abs, "removed again", hist); }
    hist = "again setPath";
    mark(hist);
    { fs::current_path(root + "/d1"); Path p("x"); expect(p, "x in d1 (a directory)", hist); p.setPath(root + "/d2/x"); expect(p, "after setPath to a file", hist); p.setPath("missing"); expect(p, "after setPath to a missing name", hist);
      p.setPath(root + "/d1"); expect(p, "after setPath to a directory", hist); Path q; q = p; p.setPath(root + "/d2/x"); expect(q, "a copy taken before setPath", hist); expect(p, "the original after setPath", hist); }
    fs::current_path(scratch);
    fs::remove_all(root);
}

// "empty and large files": directory totals beyond 2^31 and 2^32 bytes, made of sparse files (they cost no memory on tmpfs)
void big_totals(const std::string &scratch) {
    std::string root = scratch + "/big"; fs::remove_all(root); fs::create_directories(root + "/media/raw");
    auto sparse = [](const std::string &p, uintmax_t n) { { std::ofstream o(p, std::ios::binary); } fs::resize_file(p, n); };
    sparse(root + "/media/raw/a.bin", 3ULL << 30); sparse(root + "/media/raw/b.bin", 2ULL << 30); sparse(root + "/media/c.bin", (1ULL << 31) - 1); sparse(root + "/small.txt", 10);
    fs::current_path(root);
    for (const std::string &s : {root, root + "/media", root + "/media/raw", root + "/media/raw/a.bin", root + "/media/c.bin", std::string("media"), std::string("media/raw/")}) { mark("bigtotals " + s); check_path(s); shm->evaluations++; shm->nontrivial++; }
    fs::current_path(scratch);
    fs::remove_all(root);
}

void explore() {
    int maxn = thorough() ? 5 : 4;
    std::string scratch = fmt("/dev/shm/tulz-verif-path-%d", (int)getpid());
    fs::remove_all(scratch); fs::create_directories(scratch);
    std::vector<std::function<void()>> tasks;
    tasks.push_back([] { string_part(); });
    tasks.push_back([=] { big_totals(scratch); });
    tasks.push_back([=] { same_object_again(scratch); });
    tasks.push_back([=] {
        std::vector<size_t> lens = {64, 100, 200, 254, 255, 256, 257, 300, 511, 512, 513, 1000, 1023, 1024, 1025, 2047, 2048, 2049, 3000, 4000, 4083, 4084, 4085};   // every absolute path the oracle uses (cwd + "/sub/g") must stay below PATH_MAX
        if (thorough()) for (size_t l = 60; l <= 4085; l += 1) lens.push_back(l);
        for (size_t L : lens) { if (deadline_passed()) { shm->exhaustive = 0; return; } mark(fmt("deepcwd %zu", L)); deep_cwd(L, scratch); shm->evaluations++; shm->states++; shm->nontrivial++; }
        sample("deepcwd 256");
    });
    for (int n = 0; n <= maxn; n++) {
        std::vector<Forest> all; gen(n, 3, all);
        int parts = n >= 4 ? 14 : 1;
        for (int part = 0; part < parts; part++) tasks.push_back([=] {
            std::string dir = scratch + fmt("/t%d-%d", n, part); fs::create_directories(dir);
            for (size_t i = part; i < all.size(); i += parts) {
                if (deadline_passed()) { shm->exhaustive = 0; return; }
                for (int off : thorough() ? std::vector<int>{0, 1, 2, 3, 4, 5, 6} : std::vector<int>{0, 2, 4, 6}) {
                    if (all[i].empty() && off) continue;
                    g_name_offset = off;
                    mark(fmt("tree@%d ", off) + enc(all[i])); run_tree(all[i], dir);
                    shm->evaluations++; shm->states++; shm->nontrivial += !all[i].empty();
                }
                g_name_offset = 0;
                if (i % 997 == 5 && shm->nsamples < 2) sample("tree " + enc(all[i]));
            }
        });
    }
    parallel(tasks);
    fs::current_path("/");
    fs::remove_all(scratch);
    shm->validated = shm->transitions;
    sx::detail(fmt("every directory forest with at most %d entries, depth <= 3, at most 4 siblings, each entry a directory or a regular file of 0/1/4097 bytes, sibling names rotating through {a, 'b c', .h, e-acute, ..a, ..., a 46-character name} from every second (thorough: every) starting offset; for every node and for missing siblings, "
                   "by absolute path, relative path, './' prefix and trailing separator: exists/isFile/isDirectory/size/listChildren against std::filesystem; DirectoryVisitor for every directory (absolute, relative, nested, missing, unused, explicit restore); "
                   "working directories whose absolute path has a chosen total length (64..4085 bytes across the 255/256, 1024, 2048 boundaries and up to PATH_MAX; thorough: every length 60..4085): getWorkingDirectory, relative queries, DirectoryVisitor enter/restore/nesting; "
                   "string identities for every path of <= 3 segments over {a, b.c, ., .., 'x y', e-acute} with optional leading separator, 0-2 trailing separators and doubled inner separators", maxn));
}

void replay(const std::string &hist) {
    std::string scratch = fmt("/dev/shm/tulz-verif-path-replay-%d", (int)getpid());
    fs::remove_all(scratch); fs::create_directories(scratch);
    if (hist.compare(0, 10, "bigtotals ") == 0) { big_totals(scratch); }
    else if (hist.compare(0, 6, "again ") == 0) { same_object_again(scratch); }
    else if (hist.compare(0, 5, "tree@") == 0) { size_t sp = hist.find(' '); g_name_offset = atoi(hist.c_str() + 5); Forest f; size_t i = 0; std::string body = hist.substr(sp + 1); if (!dec(body, i, f)) violation("replay:parse", "cannot parse " + hist); else run_tree(f, scratch); g_name_offset = 0; }
    else if (hist.compare(0, 5, "tree ") == 0) { Forest f; size_t i = 0; std::string body = hist.substr(5); if (!dec(body, i, f)) violation("replay:parse", "cannot parse " + hist); else run_tree(f, scratch); }
    else if (hist.compare(0, 8, "deepcwd ") == 0) deep_cwd((size_t)atol(hist.c_str() + 8), scratch);
    else string_part();
    fs::current_path("/"); fs::remove_all(scratch);
}
}  // namespace

int main(int argc, char **argv) {
    Harness h;
    h.name = "path";
    h.rule = "bounded-exhaustive enumeration of configurations: every directory forest up to the entry bound is created on tmpfs and every Path query on every node (several spellings of the path) is compared with std::filesystem; "
             "every DirectoryVisitor use is checked for entering and restoring the working directory; every path string of the bounded grammar is checked against the join/name/parent identities; non-trivial = non-empty tree / non-empty directory string";
    h.assumptions = {"no symlinks or special files, process runs as root on tmpfs", "'\\\\' is excluded from path strings (tulz treats it as a separator only in some functions on Linux)", "bounds on entries, depth and segments as stated"};
    h.explore = explore; h.replay = replay;
    return run_main(argc, argv, h);
}
