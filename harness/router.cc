// E1 harness for tulz::ConcurrentSubjectRouter: property C11 (and the router part of C15).
#include <tulz/observer/routing/ConcurrentSubjectRouter.h>
#include <tulz/observer/routing/RoutingKeyBuilder.h>

#include <algorithm>
#include <map>
#include <memory>
#include <optional>
#include <regex>
#include <stdexcept>
#include <string>
#include <thread>
#include <unordered_map>
#include <vector>

#include "../engine/explore.h"

using namespace tulz;

namespace {
enum { EV_OP_CALL = 130, EV_OP_RET = 131, EV_CB_ENTER = 132, EV_CB_EXIT = 133 };

// ---- the small universe of keys and patterns
// The key objects are built afresh for every execution and shared (as const objects) by all threads of that execution: a key that fills a cache lazily
// on first use must meet every schedule cold, and state carried from one execution to the next inside a long-lived key would make replays diverge.
struct KeySet {
    std::vector<RoutingKey> keys, pats;
    KeySet() {
        keys.push_back(RoutingKeyBuilder{"a", "b"}.build());     // K0
        keys.push_back(RoutingKeyBuilder{"a", "c"}.build());     // K1
        keys.push_back(RoutingKeyBuilder{"d"}.build());          // K2
        pats.push_back(RoutingKeyBuilder{"a", "b"}.build());                              // P0 concrete
        pats.push_back(RoutingKeyBuilder{}.level("a").all().build());                     // P1 a/*
        pats.push_back(RoutingKeyBuilder{}.all().all().build());                          // P2 */*
        pats.push_back(RoutingKeyBuilder{}.all().build());                                // P3 *
        pats.push_back(RoutingKeyBuilder{}.level(std::regex{"a|d"}).level("c").build());  // P4 (a|d)/c
    }
};
std::unique_ptr<const KeySet> g_keys;
const RoutingKey &key(int i) { return g_keys->keys[i]; }
const RoutingKey &pattern(int i) { return g_keys->pats[i]; }
const char *key_name(int i) { static const char *n[] = {"a/b", "a/c", "d"}; return n[i]; }
const char *pat_name(int i) { static const char *n[] = {"a/b", "a/*", "*/*", "*", "(a|d)/c"}; return n[i]; }

struct Op { char kind; int arg; };     // N notify(pattern) T notify(pattern), an exception thrown by an observer is caught by the caller S subscribe(key) U unsubscribe(initial subscription) H shrink(pattern) E exists(pattern) D depth
struct Result { std::vector<int> called; long value = -1; bool operator==(const Result &o) const { return called == o.called && value == o.value; } };

struct Spec {
    std::vector<int> initial;                   // keys of the initial subscriptions (observer ids 100, 101, ...)
    int thrower = -1;                           // key with one more initial subscription (observer id 99) whose callback throws std::runtime_error
    std::vector<int> dead;                      // keys that were subscribed and unsubscribed again before the threads start (dead nodes for shrink)
    std::vector<std::vector<Op>> threads;       // per thread: its operations in program order
    bool check = true;
};

std::string op_str(const Op &o) {
    switch (o.kind) {
    case 'N': return std::string("notify(") + pat_name(o.arg) + ")";
    case 'T': return std::string("try{notify(") + pat_name(o.arg) + ")}catch";
    case 'S': return std::string("subscribe(") + key_name(o.arg) + ")";
    case 'U': return "unsubscribe(initial#" + std::to_string(o.arg) + ")";
    case 'H': return std::string("shrink(") + pat_name(o.arg) + ")";
    case 'E': return std::string("exists(") + pat_name(o.arg) + ")";
    case 'D': return "depth()";
    }
    return "?";
}

// ---- sequential reference: the plain SubjectRouter driven from one thread
struct RefRun {
    SubjectRouter router;
    std::vector<Subscription<>> initial;
    std::vector<Subscription<>> made;
    std::vector<int> *sink = nullptr;
    std::optional<Subscription<>> thrower;
    void subscribe_thrower(int k) { thrower.emplace(router.subscribe(key(k), [this] { if (sink) sink->push_back(99); throw std::runtime_error("observer 99"); })); }
    void subscribe(int k, int obs, bool is_initial) {
        auto s = router.subscribe(key(k), [this, obs] { if (sink) sink->push_back(obs); });
        (is_initial ? initial : made).push_back(std::move(s));
    }
    Result apply(const Op &o, int opid) {
        Result r;
        switch (o.kind) {
        case 'N': sink = &r.called; r.value = (long)router.notify(pattern(o.arg)); sink = nullptr; break;
        case 'T': sink = &r.called; try { r.value = (long)router.notify(pattern(o.arg)); } catch (const std::runtime_error &) { r.value = -2; } sink = nullptr; break;
        case 'S': subscribe(o.arg, opid, false); break;
        case 'U': initial[o.arg].unsubscribe(); break;
        case 'H': router.shrink(pattern(o.arg)); break;
        case 'E': r.value = router.exists(pattern(o.arg)); break;
        case 'D': r.value = (long)router.depth(); break;
        }
        return r;
    }
};

struct Flat { Op op; int thread; int call = -1, ret = -1; Result res; };

bool linearizable(const Spec &s, std::vector<Flat> &ops, std::string &why) {
    int n = (int)ops.size();
    std::vector<int> perm(n);
    for (int i = 0; i < n; i++) perm[i] = i;
    std::sort(perm.begin(), perm.end());
    do {
        bool ok = true;
        std::vector<int> posof(n);
        for (int i = 0; i < n; i++) posof[perm[i]] = i;
        for (int a = 0; a < n && ok; a++) for (int b = 0; b < n && ok; b++)
            if (a != b && ops[a].ret >= 0 && ops[a].ret < ops[b].call && posof[a] > posof[b]) ok = false;    // real-time order
        if (!ok) continue;
        RefRun ref;
        for (size_t i = 0; i < s.initial.size(); i++) ref.subscribe(s.initial[i], 100 + (int)i, true);
        if (s.thrower >= 0) ref.subscribe_thrower(s.thrower);
        for (int k : s.dead) { auto sub = ref.router.subscribe(key(k), [] {}); sub.unsubscribe(); }
        for (int i = 0; i < n && ok; i++) {
            Result r = ref.apply(ops[perm[i]].op, perm[i]);
            if (!(r == ops[perm[i]].res)) ok = false;
        }
        if (ok) return true;
    } while (std::next_permutation(perm.begin(), perm.end()));
    why = "no sequential order of the operations that respects their call/return order reproduces the observed results:";
    for (int i = 0; i < n; i++) {
        why += " [t" + std::to_string(ops[i].thread) + " " + op_str(ops[i].op) + " ->";
        if (ops[i].op.kind == 'N' || ops[i].op.kind == 'T') { why += " called{"; for (int c : ops[i].res.called) why += std::to_string(c) + " "; why += "} ret=" + std::to_string(ops[i].res.value); }
        else if (ops[i].res.value >= 0) why += " " + std::to_string(ops[i].res.value);
        why += "]";
    }
    return false;
}

std::unordered_map<std::string, bool> g_memo;    // per worker process: verdict per distinct observed history

void run(const Spec &s, int prog_id) {
    g_keys = std::make_unique<const KeySet>();
    auto router = std::make_unique<ConcurrentSubjectRouter>();
    std::vector<USubscription> initial;
    auto cb = [](int obs) { return [obs] { vs_event(EV_CB_ENTER, obs, 0); vs_point(7); vs_event(EV_CB_EXIT, obs, 0); }; };
    for (size_t i = 0; i < s.initial.size(); i++) initial.push_back(router->subscribe(key(s.initial[i]), cb(100 + (int)i)));
    std::optional<USubscription> thrower;
    if (s.thrower >= 0) thrower.emplace(router->subscribe(key(s.thrower), [] { vs_event(EV_CB_ENTER, 99, 0); vs_point(7); vs_event(EV_CB_EXIT, 99, 0); throw std::runtime_error("observer 99"); }));
    for (int k : s.dead) { USubscription sub = router->subscribe(key(k), [] {}); sub->unsubscribe(); }

    std::vector<Flat> ops;
    std::vector<std::vector<int>> ids(s.threads.size());
    for (size_t t = 0; t < s.threads.size(); t++) for (auto &o : s.threads[t]) { ids[t].push_back((int)ops.size()); ops.push_back(Flat{o, (int)t + 1}); }
    std::vector<std::optional<USubscription>> made(ops.size());
    std::vector<long> values(ops.size(), -1);

    std::vector<std::thread> th;
    for (size_t t = 0; t < s.threads.size(); t++) {
        th.emplace_back([&, t] {
            for (size_t j = 0; j < s.threads[t].size(); j++) {
                const Op &o = s.threads[t][j]; int id = ids[t][j];
                vs_event(EV_OP_CALL, id, 0);
                switch (o.kind) {
                case 'N': values[id] = (long)router->notify(pattern(o.arg)); break;
                case 'T': try { values[id] = (long)router->notify(pattern(o.arg)); } catch (const std::runtime_error &) { values[id] = -2; } break;
                case 'S': made[id].emplace(router->subscribe(key(o.arg), cb(id))); break;
                case 'U': initial[o.arg]->unsubscribe(); break;
                case 'H': router->shrink(pattern(o.arg)); break;
                case 'E': values[id] = router->exists(pattern(o.arg)); break;
                case 'D': values[id] = (long)router->depth(); break;
                }
                vs_event(EV_OP_RET, id, 0);
            }
        });
    }
    for (auto &t : th) t.join();
    if (!s.check) return;

    // ---- collect what was observed
    int n; const vs_ev *ev = vs_log(&n);
    std::vector<int> current(VS_MAXT, -1);      // per thread: operation in flight
    std::vector<int> unsub_ret(s.initial.size(), -1);
    for (int i = 0; i < n; i++) {
        const vs_ev &e = ev[i];
        if (e.kind == EV_OP_CALL) { ops[e.a].call = i; current[e.tid] = e.a; }
        if (e.kind == EV_OP_RET) { ops[e.a].ret = i; current[e.tid] = -1; if (ops[e.a].op.kind == 'U') unsub_ret[ops[e.a].op.arg] = i; }
        if (e.kind == EV_CB_ENTER) {
            int op = current[e.tid];
            if (op < 0 || (ops[op].op.kind != 'N' && ops[op].op.kind != 'T')) vs_fail("observer %d was invoked outside any notify call of its thread", e.a);
            ops[op].res.called.push_back(e.a);
            if (e.a >= 100 && unsub_ret[e.a - 100] >= 0)
                vs_fail("observer %d was invoked after unsubscribe() of its subscription had returned", e.a);
        }
    }
    for (size_t i = 0; i < ops.size(); i++) if (ops[i].op.kind == 'N' || ops[i].op.kind == 'T' || ops[i].op.kind == 'E' || ops[i].op.kind == 'D') ops[i].res.value = values[i];
    // an unsubscribe() that returns while a callback of that very observer is still running took effect in the middle of a delivery (the observer is destroyed under its own callback)
    {
        std::vector<int> running_since(256, -1);
        for (int i = 0; i < n; i++) {
            const vs_ev &e = ev[i];
            if (e.kind == EV_CB_ENTER && e.a >= 0 && e.a < 256) running_since[e.a] = i;
            if (e.kind == EV_CB_EXIT && e.a >= 0 && e.a < 256) running_since[e.a] = -1;
            if (e.kind == EV_OP_RET && ops[e.a].op.kind == 'U') { int obs = 100 + ops[e.a].op.arg; if (running_since[obs] >= 0) vs_fail("unsubscribe() of observer %d returned while a callback of that observer was still running (delivery in progress)", obs); }
        }
    }

    std::string sig = std::to_string(prog_id) + "|";
    for (auto &o : ops) { sig += std::to_string(o.res.value) + ":"; for (int c : o.res.called) sig += std::to_string(c) + ","; sig += ";"; }
    for (auto &a : ops) for (auto &b : ops) sig += (a.ret >= 0 && a.ret < b.call) ? '1' : '0';
    auto it = g_memo.find(sig);
    std::string why;
    if (it == g_memo.end()) it = g_memo.emplace(sig, linearizable(s, ops, why)).first;
    if (!it->second) { if (why.empty()) linearizable(s, ops, why); vs_fail("not linearizable: %s", why.c_str()); }
}

std::string ev_name(const vs_ev &e) {
    char b[96];
    switch (e.kind) {
    case EV_OP_CALL: snprintf(b, sizeof b, "calls router operation #%d", e.a); return b;
    case EV_OP_RET: snprintf(b, sizeof b, "router operation #%d returned", e.a); return b;
    case EV_CB_ENTER: snprintf(b, sizeof b, "callback of observer %d enter", e.a); return b;
    case EV_CB_EXIT: snprintf(b, sizeof b, "callback of observer %d exit", e.a); return b;
    }
    return "";
}

int g_prog_counter = 0;

void add(VSuite &suite, Spec s, int bound, const std::string &) {
    VProgram p;
    std::string nm, d = "router pre-populated with observers on [";
    for (size_t i = 0; i < s.initial.size(); i++) d += std::string(i ? "," : "") + key_name(s.initial[i]);
    d += "]";
    if (s.thrower >= 0) d += std::string(", a throwing observer on ") + key_name(s.thrower);
    if (!s.dead.empty()) { d += ", dead keys ["; for (size_t i = 0; i < s.dead.size(); i++) d += std::string(i ? "," : "") + key_name(s.dead[i]); d += "]"; }
    d += "; threads:";
    for (auto &t : s.threads) { nm += nm.empty() ? "" : "|"; d += " {"; for (size_t j = 0; j < t.size(); j++) { nm += (j ? ";" : "") + std::string(1, t[j].kind) + std::to_string(t[j].arg); d += (j ? "; " : "") + op_str(t[j]); } d += "}"; }
    p.name = "i" + std::to_string(s.initial.size()) + (s.dead.empty() ? "" : "d" + std::to_string(s.dead.size())) + (s.thrower >= 0 ? "t" : "") + ":" + nm;
    p.describe = d + "; callbacks contain a scheduling point and never call the router";
    p.bound = bound;
    int id = g_prog_counter++;
    p.body = [s, id] { run(s, id); };
    suite.programs.push_back(std::move(p));
}

bool provider(const std::string &prop, const std::string &tier, const std::string &flavour, VSuite &suite) {
    if (prop != "C11" && prop != "C15") return false;
    bool thorough = tier == "thorough";
    suite.event_name = ev_name;
    auto N = [](int a) { return Op{'N', a}; }; auto S = [](int a) { return Op{'S', a}; }; auto U = [](int a) { return Op{'U', a}; };
    auto Tn = [](int a) { return Op{'T', a}; };
    auto H = [](int a) { return Op{'H', a}; }; auto E = [](int a) { return Op{'E', a}; }; auto D = [] { return Op{'D', 0}; };
    typedef std::vector<std::vector<Op>> T;
    if (prop == "C15") {
        int b = thorough ? 3 : 2;
        { Spec s; s.check = false; s.initial = {0, 1}; s.threads = T{{S(0)}, {N(1)}, {U(0)}}; add(suite, s, b, flavour); }
        { Spec s; s.check = false; s.initial = {0}; s.threads = T{{N(2)}, {H(2)}, {E(1), D()}}; add(suite, s, b, flavour); }
        { Spec s; s.check = false; s.initial = {0, 1}; s.threads = T{{U(1), H(2)}, {N(1), D()}}; add(suite, s, b, flavour); }
        { Spec s; s.check = false; s.initial = {0}; s.dead = {1, 2}; s.threads = T{{N(1)}, {H(2)}, {E(4)}}; add(suite, s, b, flavour); }
        // several subscriptions on ONE key share one Subject: concurrent subscribe/unsubscribe/notify meet in its id set and observer list
        { Spec s; s.check = false; s.initial = {0, 0, 0}; s.threads = T{{U(0)}, {U(1)}, {S(0)}}; add(suite, s, b, flavour); }
        { Spec s; s.check = false; s.initial = {0, 0, 0}; s.threads = T{{U(1)}, {U(0)}, {N(0)}}; add(suite, s, b, flavour); }
        { Spec s; s.check = false; s.initial = {0, 0}; s.threads = T{{S(0), U(0)}, {U(1), S(0)}}; add(suite, s, b, flavour); }
        { Spec s; s.check = false; s.initial = {0}; s.thrower = 2; s.threads = T{{Tn(3), U(0)}, {N(1)}, {Tn(3)}}; add(suite, s, b, flavour); }
        // two readers and a writer on the same subject: a writer that gets in while one of the readers is still delivering
        { Spec s; s.check = false; s.initial = {0, 1}; s.threads = T{{N(1)}, {N(1)}, {S(0)}}; add(suite, s, b, flavour); }
        { Spec s; s.check = false; s.initial = {0}; s.threads = T{{N(0)}, {E(0), N(0)}, {U(0)}}; add(suite, s, b, flavour); }
        // readers that run concurrently under the shared lock and use the SAME const key object (wildcard and regex levels)
        { Spec s; s.check = false; s.initial = {0, 1}; s.threads = T{{N(1)}, {N(1)}, {E(1)}}; add(suite, s, b, flavour); }
        { Spec s; s.check = false; s.initial = {1, 2}; s.threads = T{{N(4)}, {E(4)}, {N(4), D()}}; add(suite, s, b, flavour); }
        { Spec s; s.check = false; s.initial = {0}; s.dead = {1}; s.threads = T{{E(2)}, {N(2)}, {E(2)}}; add(suite, s, b, flavour); }
        return true;
    }
    suite.rule = "every schedule with at most c preemptions of 3-4 threads calling one or two operations each on one ConcurrentSubjectRouter (colliding on the same keys), c = 0..bound; "
                 "each schedule's recorded call/return/callback history is checked for linearizability against the sequential SubjectRouter by trying every order consistent with the call/return order; non-trivial = some thread really blocked";
    suite.assumptions = {"callbacks never call back into the router", "the sequential SubjectRouter is the reference (its own behaviour is what C06/C13 decide)",
                         "sequential consistency at synchronisation-step granularity (C15 checks data-race freedom on router programs)", "no spurious wake-ups; bounds as listed per program"};
    suite.relevant = [](int o, const std::string &, const std::string &) { return o == VS_OUT_ORACLE || o == VS_OUT_CRASH; };
    int b = thorough ? 3 : 2;
    { Spec s; s.initial = {0}; s.threads = T{{S(0)}, {N(1)}, {N(1)}, {U(0)}}; add(suite, s, 2, flavour); }           // the design's batch example
    { Spec s; s.initial = {0, 1}; s.threads = T{{N(1)}, {U(0)}, {U(1)}}; add(suite, s, b, flavour); }
    { Spec s; s.initial = {0}; s.threads = T{{N(0)}, {U(0)}, {H(2)}}; add(suite, s, b, flavour); }
    { Spec s; s.initial = {0}; s.threads = T{{S(1)}, {H(2)}, {N(1)}, {E(4)}}; add(suite, s, 2, flavour); }
    { Spec s; s.initial = {1}; s.threads = T{{S(2)}, {D()}, {E(3)}, {N(3)}}; add(suite, s, 2, flavour); }
    { Spec s; s.initial = {0, 1}; s.threads = T{{U(0), H(2)}, {N(2), E(0)}}; add(suite, s, b, flavour); }
    { Spec s; s.initial = {0}; s.threads = T{{S(0), N(0)}, {N(0), D()}}; add(suite, s, b, flavour); }
    // "no subscribe/unsubscribe/shrink takes effect while a delivery is in progress": a wildcard notify walks a/b then a/c with a
    // scheduling point inside every callback; the other thread changes both keys in program order
    { Spec s; s.initial = {0}; s.threads = T{{S(0), S(1)}, {N(1)}}; add(suite, s, 3, flavour); }
    { Spec s; s.initial = {0, 1}; s.threads = T{{U(0), U(1)}, {N(1)}}; add(suite, s, 3, flavour); }
    { Spec s; s.initial = {0, 1}; s.threads = T{{S(0), S(1)}, {N(1)}}; add(suite, s, 3, flavour); }      // both keys exist already: a subscribe that adds to an existing subject must still wait for the delivery
    { Spec s; s.initial = {0, 1}; s.threads = T{{U(0), H(2), E(0)}, {N(2)}}; add(suite, s, 3, flavour); }
    { Spec s; s.initial = {0, 0}; s.threads = T{{S(0), U(1)}, {N(0)}, {N(1)}}; add(suite, s, 2, flavour); }
    { Spec s; s.initial = {0}; s.dead = {1, 2}; s.threads = T{{H(2), S(1)}, {N(1), E(4)}, {D()}}; add(suite, s, 2, flavour); }
    // an observer that throws: the exception passes through notify() to the caller, which carries on with other operations; the router must be as atomic afterwards as before
    { Spec s; s.initial = {0}; s.thrower = 2; s.threads = T{{Tn(3), U(0)}, {N(1)}}; add(suite, s, 3, flavour); }
    { Spec s; s.initial = {0, 1}; s.thrower = 2; s.threads = T{{Tn(3), S(0)}, {N(1)}, {Tn(3)}}; add(suite, s, 2, flavour); }
    { Spec s; s.initial = {0}; s.thrower = 2; s.threads = T{{Tn(3), H(2)}, {N(0), E(3)}}; add(suite, s, b, flavour); }
    if (thorough) {
        { Spec s; s.initial = {0, 1}; s.threads = T{{S(0)}, {N(1)}, {N(2)}, {U(1)}, {H(2)}}; add(suite, s, 2, flavour); }
        { Spec s; s.initial = {0}; s.threads = T{{S(1), U(0)}, {N(1), N(1)}, {H(2), D()}}; add(suite, s, 2, flavour); }
        { Spec s; s.initial = {0, 0}; s.threads = T{{U(0)}, {U(1)}, {N(0)}, {N(0)}}; add(suite, s, 2, flavour); }
    }
    return true;
}
VX_REGISTER(provider);
}  // namespace
