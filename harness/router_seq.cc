// E2 harness for tulz::SubjectRouter and single-threaded ConcurrentSubjectRouter:
// C06 (notify reaches exactly the matching observers, with the passed values) and C13 (shrink/exists/depth consistency).
#include <tulz/observer/routing/SubjectRouter.h>
#include <tulz/observer/routing/ConcurrentSubjectRouter.h>
#include <tulz/observer/routing/RoutingKeyBuilder.h>

#include <deque>
#include <map>
#include <memory>
#include <optional>
#include <regex>
#include <set>
#include <string>
#include <vector>

#include "seqx.h"

using namespace sx;
using namespace tulz;

namespace {
typedef std::vector<std::string> Path;

// ---- level kinds of patterns; matching is re-implemented by hand (independent of std::regex)
enum LK { L_A, L_B, L_AB, L_ALL, L_RX_ASTAR, L_RX_AORB, L_RX_A, NLK };
const char *lk_name[] = {"a", "b", "ab", "*", "/a.*/", "/a|b/", "/a/"};
bool lk_matches(int k, const std::string &name) {
    switch (k) {
    case L_A: return name == "a"; case L_B: return name == "b"; case L_AB: return name == "ab"; case L_ALL: return true;
    case L_RX_ASTAR: return !name.empty() && name[0] == 'a'; case L_RX_AORB: return name == "a" || name == "b"; case L_RX_A: return name == "a";
    }
    return false;
}
typedef std::vector<int> Pattern;
std::string pat_str(const Pattern &p) { std::string s; for (int k : p) s += std::string(s.empty() ? "" : ".") + lk_name[k]; return s; }
std::string path_str(const Path &p) { std::string s; for (auto &l : p) s += (s.empty() ? "" : ".") + l; return s; }
bool matches(const Pattern &p, const Path &k) { if (p.size() != k.size()) return false; for (size_t i = 0; i < p.size(); i++) if (!lk_matches(p[i], k[i])) return false; return true; }

RoutingKey build_key(const Path &p) { RoutingKeyBuilder b; for (auto &l : p) b.level(l); return b.build(); }
RoutingKey build_pattern(const Pattern &p) {
    RoutingKeyBuilder b;
    for (int k : p) switch (k) {
        case L_A: b.level(std::string("a")); break; case L_B: b.level(std::string("b")); break; case L_AB: b.level(std::string("ab")); break;
        case L_ALL: b.all(); break; case L_RX_ASTAR: b.level(std::regex("a.*")); break; case L_RX_AORB: b.level(std::regex("a|b")); break; case L_RX_A: b.level(std::regex("a")); break;
    }
    return b.build();
}

// the same pattern built the other way: the first k levels through the variadic RoutingKeyBuilder constructor, the rest chained with level()/all()
template<typename... A> RoutingKey build_split(const Pattern &p, size_t k, size_t i, A &&...args) {
    if (i == k) {
        RoutingKeyBuilder b{std::forward<A>(args)...};
        for (size_t j = k; j < p.size(); j++) switch (p[j]) {
            case L_A: b.level(std::string("a")); break; case L_B: b.level(std::string("b")); break; case L_AB: b.level(std::string("ab")); break;
            case L_ALL: b.all(); break; case L_RX_ASTAR: b.level(std::regex("a.*")); break; case L_RX_AORB: b.level(std::regex("a|b")); break; case L_RX_A: b.level(std::regex("a")); break;
        }
        return b.build();
    }
    if constexpr (sizeof...(A) < 3) {
        switch (p[i]) {
        case L_A: return build_split(p, k, i + 1, std::forward<A>(args)..., std::string("a"));
        case L_B: return build_split(p, k, i + 1, std::forward<A>(args)..., std::string("b"));
        case L_AB: return build_split(p, k, i + 1, std::forward<A>(args)..., std::string("ab"));
        case L_RX_ASTAR: return build_split(p, k, i + 1, std::forward<A>(args)..., std::regex("a.*"));
        case L_RX_AORB: return build_split(p, k, i + 1, std::forward<A>(args)..., std::regex("a|b"));
        case L_RX_A: return build_split(p, k, i + 1, std::forward<A>(args)..., std::regex("a"));
        }
    }
    return build_pattern(p);
}

struct Universe {
    std::vector<Path> sub_keys;          // keys that can be subscribed
    std::vector<Path> all_keys;          // prefix closure (everything that can be stored)
    std::vector<Pattern> patterns;
    std::vector<int> shrink_patterns;    // indices into patterns
};
Universe *U;

// RoutingKey objects are built per explored step and never shared between steps: if key objects carried state (a cache, say), results would
// otherwise depend on the order of exploration and could not be replayed.  Within one step a key object IS reused across calls.
struct KeyCache {
    std::map<int, RoutingKey> sub, all, pat;
    const RoutingKey &sub_rk(int i) { auto it = sub.find(i); if (it == sub.end()) it = sub.emplace(i, build_key(U->sub_keys[i])).first; return it->second; }
    const RoutingKey &all_rk(int i) { auto it = all.find(i); if (it == all.end()) it = all.emplace(i, build_key(U->all_keys[i])).first; return it->second; }
    const RoutingKey &pat_rk(int i) { auto it = pat.find(i); if (it == pat.end()) it = pat.emplace(i, build_pattern(U->patterns[i])).first; return it->second; }
    void clear() { sub.clear(); all.clear(); pat.clear(); }
};
KeyCache K;

void build_universe(bool big) {
    U = new Universe();
    std::vector<Path> ks = {{"a"}, {"b"}, {"ab"}, {"a", "a"}, {"a", "b"}, {"a", "ab"}, {"b", "a"}, {"ab", "b"}, {"a", "a", "a"}, {"a", "b", "a"}, {"a", "ab", "b"}, {"b", "a", "ab"}};
    if (big) { ks.push_back({"b", "b"}); ks.push_back({"ab", "a", "a"}); ks.push_back({"a", "a", "b"}); ks.push_back({"b", "a", "a"}); }
    U->sub_keys = ks;
    std::set<Path> all;
    for (auto &k : ks) for (size_t n = 1; n <= k.size(); n++) all.insert(Path(k.begin(), k.begin() + n));
    U->all_keys.assign(all.begin(), all.end());
    std::vector<int> kinds = big ? std::vector<int>{L_A, L_B, L_AB, L_ALL, L_RX_ASTAR, L_RX_AORB, L_RX_A} : std::vector<int>{L_A, L_B, L_AB, L_ALL, L_RX_ASTAR, L_RX_AORB};
    for (int d = 1; d <= 3; d++) {
        std::vector<size_t> idx(d, 0);
        for (;;) {
            Pattern p; for (int i = 0; i < d; i++) p.push_back(kinds[idx[i]]);
            U->patterns.push_back(p);
            int i = 0; while (i < d && ++idx[i] == kinds.size()) idx[i++] = 0;
            if (i == d) break;
        }
    }
    for (size_t i = 0; i < U->patterns.size(); i++) {
        const Pattern &p = U->patterns[i];
        bool pick = p.size() <= 2;
        if (p.size() == 3) {
            int wild = 0; for (int k : p) wild += k >= L_ALL;
            pick = wild == 3 ? (p[0] == p[1] && p[1] == p[2]) || (p[0] == L_ALL && p[2] == L_RX_ASTAR) : (wild == 0 && p[0] == L_A) || (wild == 1 && p[0] == L_A && p[1] == L_ALL) || (wild == 2 && p[2] == L_A && p[0] == L_RX_AORB && p[1] == L_ALL);
        }
        if (pick) U->shrink_patterns.push_back((int)i);
    }
}

// ---- argument signatures
struct Call { int obs; std::string args; bool operator<(const Call &o) const { return obs != o.obs ? obs < o.obs : args < o.args; } bool operator==(const Call &o) const { return obs == o.obs && args == o.args; } };
std::vector<Call> g_calls;
std::set<int> g_self_invalidate;       // observers that invalidate themselves the next time they are invoked
const std::string PAYLOAD = "a payload that does not fit into the small-string buffer of std::string";

std::string show() { return ""; }
std::string show1(int v) { return std::to_string(v); }
std::string show1(const std::string &s) { return "'" + s + "'"; }
template<typename A, typename... R> std::string show(const A &a, const R &...r) { std::string s = show1(a); if constexpr (sizeof...(R) > 0) s += "," + show(r...); return s; }

template<typename... Args> struct Sig;
template<> struct Sig<> { static constexpr const char *name = "void"; template<class R> static size_t notify(R &r, const RoutingKey &k) { return r.notify(k); } static std::string expect() { return ""; } };
template<> struct Sig<int> { static constexpr const char *name = "int"; template<class R> static size_t notify(R &r, const RoutingKey &k) { return r.template notify<int>(k, 7); } static std::string expect() { return show(7); } };
template<> struct Sig<const std::string &> { static constexpr const char *name = "cstr"; template<class R> static size_t notify(R &r, const RoutingKey &k) { return r.template notify<const std::string &>(k, PAYLOAD); } static std::string expect() { return show(PAYLOAD); } };
template<> struct Sig<std::string> { static constexpr const char *name = "str"; template<class R> static size_t notify(R &r, const RoutingKey &k) { return r.template notify<std::string>(k, std::string(PAYLOAD)); } static std::string expect() { return show(PAYLOAD); } };
template<> struct Sig<std::string, int> { static constexpr const char *name = "str,int"; template<class R> static size_t notify(R &r, const RoutingKey &k) { return r.template notify<std::string, int>(k, std::string(PAYLOAD), 5); } static std::string expect() { return show(PAYLOAD, 5); } };

// ---- operations
// INVAL_P: invalidate through the handle WITHOUT a notify: the observer stays stored ("pending") until some notify reaches its key; it is never called again, its
// subscription handle is still valid, and as far as shrink is concerned its key still has a subscription
enum OpKind { SUBSCRIBE, UNSUB, INVAL_H, INVAL_S, SHRINK, INVAL_P, NKINDS };
const char *kname[] = {"sub", "unsub", "invalh", "invals", "shrink", "invalp"};
struct Op { int kind, arg; };
std::string op_str(const Op &o) { return std::string(kname[o.kind]) + std::to_string(o.arg); }
bool parse_ops(const std::string &text, std::vector<Op> &h) {
    std::stringstream ss(text); std::string tok;
    while (ss >> tok) {
        int best = -1;
        for (int k = 0; k < NKINDS; k++) { size_t n = strlen(kname[k]); if (tok.compare(0, n, kname[k]) == 0 && tok.size() > n && isdigit((unsigned char)tok[n]) && (best < 0 || n > strlen(kname[best]))) best = k; }
        if (best < 0) return false;
        h.push_back(Op{best, atoi(tok.c_str() + strlen(kname[best]))});
    }
    return true;
}

// handle abstraction over the two router types
template<typename R, typename... Args> struct HandleOf;
template<typename... Args> struct HandleOf<SubjectRouter, Args...> {
    std::optional<Subscription<Args...>> h;
    void unsubscribe() { h->unsubscribe(); }
    bool can_invalidate() { return true; }
    void invalidate() { h->getObserver()->invalidate(); }
    bool is_valid() { return h->isValid(); }
};
template<typename... Args> struct HandleOf<ConcurrentSubjectRouter, Args...> {
    std::optional<USubscription> h;
    void unsubscribe() { (*h)->unsubscribe(); }
    bool can_invalidate() { return false; }
    void invalidate() {}
    bool is_valid() { return true; }
};
const SubjectRouter &plain(const SubjectRouter &r) { return r; }
const SubjectRouter &plain(const ConcurrentSubjectRouter &r) { return r.m_router; }

struct MSub { int obs; int key; bool live = true; bool pending = false; };      // pending: invalidated, not called any more, but still stored in its subject

template<typename R, typename... Args> struct Sys {
    using S = Sig<Args...>;
    int maxlive, maxdead = 1;
    std::unique_ptr<R> router;
    std::vector<HandleOf<R, Args...>> handles;
    std::vector<MSub> subs;                      // model: every subscription ever made in this history
    std::set<int> has_subject;                   // model: indices into U->all_keys that hold a subject
    bool c13;
    std::vector<int> last_removed;               // keys (indices into U->all_keys) that the last checked shrink removed
    bool light = false;                          // step(): after the operation only the cheap observations (the key itself, a full wildcard, exists, depth)

    void bad(const std::string &sig, const std::string &msg) { violation(sig, msg); }
    int all_index(const Path &p) { for (size_t i = 0; i < U->all_keys.size(); i++) if (U->all_keys[i] == p) return (int)i; return -1; }
    int live_count() { int n = 0; for (auto &s : subs) n += s.live; return n; }
    int live_on(int key) { int n = 0; for (auto &s : subs) n += s.live && s.key == key; return n; }
    int dead_keys() { int n = 0; for (int k : has_subject) { bool live = false; for (auto &s : subs) live |= s.live && all_index(U->sub_keys[s.key]) == k; n += !live; } return n; }

    std::set<int> stored() { std::set<int> s; for (size_t i = 0; i < U->all_keys.size(); i++) if (router->exists(K.all_rk((int)i))) s.insert((int)i); return s; }

    bool pre(const Op &o) {
        switch (o.kind) {
        case SUBSCRIBE: { bool pend = false; for (auto &s : subs) pend |= s.pending; if (pend && !thorough()) return false; }      // quick tier: nothing new is subscribed while an invalidated observer is waiting to be removed
            return o.arg < (int)U->sub_keys.size() && live_count() < maxlive && live_on(o.arg) < 2 && (dead_keys() <= maxdead || has_subject.count(all_index(U->sub_keys[o.arg])));
        case UNSUB: case INVAL_S: return o.arg < (int)subs.size() && subs[o.arg].live;
        case INVAL_H: return o.arg < (int)subs.size() && subs[o.arg].live && handles[o.arg].can_invalidate();
        case INVAL_P: { int pend = 0; for (auto &s : subs) pend += s.pending; return c13 && pend == 0 && live_count() <= (thorough() ? 2 : 1) && o.arg < (int)subs.size() && subs[o.arg].live && handles[o.arg].can_invalidate(); }      // C13 run only, one pending observer at a time
        case SHRINK: return o.arg < (int)U->shrink_patterns.size();
        }
        return false;
    }

    // every notify that reaches the key of a pending observer drops it from its subject
    void drop_pending(const Pattern &p) { for (auto &s : subs) if (s.pending && matches(p, U->sub_keys[s.key])) s.pending = false; }

    void check_notify(int pi, const std::set<int> &removed_before_call, const char *ctx) {
        const Pattern &p = U->patterns[pi];
        g_calls.clear();
        size_t ret = S::notify(*router, K.pat_rk(pi));
        drop_pending(p);
        std::vector<Call> want; size_t keys_with_subject = 0;
        for (auto &s : subs) if (s.live && !removed_before_call.count(s.obs) && matches(p, U->sub_keys[s.key])) want.push_back(Call{s.obs, S::expect()});
        for (int k : has_subject) if (matches(p, U->all_keys[k])) keys_with_subject++;
        std::vector<Call> got = g_calls;
        std::sort(got.begin(), got.end()); std::sort(want.begin(), want.end());
        if (c13) return;      // the C13 run does not judge deliveries against the model (that is C06); it compares them with the same history without its shrink calls, see step()
        if (!(got == want)) {
            std::string a, b; for (auto &c : got) a += fmt("%d(%s) ", c.obs, c.args.c_str()); for (auto &c : want) b += fmt("%d(%s) ", c.obs, c.args.c_str());
            bad(c13 ? "shrink:delivery-changed" : "model:delivery", fmt("%snotify(%s) invoked observers [%s], expected exactly the observers under matching keys of the same depth, each once, with the passed values: [%s]", ctx, pat_str(p).c_str(), a.c_str(), b.c_str()));
        }
        if (ret != keys_with_subject) bad("model:notify-count", fmt("%snotify(%s) returned %zu, but %zu matched keys hold a subject", ctx, pat_str(p).c_str(), ret, keys_with_subject));
    }

    // what every probe pattern delivers in the current state (observer ids and received values, sorted)
    std::vector<std::vector<Call>> all_deliveries() {
        std::vector<std::vector<Call>> out;
        for (size_t pi = 0; pi < U->patterns.size(); pi++) { g_calls.clear(); S::notify(*router, K.pat_rk((int)pi)); drop_pending(U->patterns[pi]); std::vector<Call> got = g_calls; std::sort(got.begin(), got.end()); out.push_back(std::move(got)); }
        g_calls.clear();
        return out;
    }

    // the full, non-mutating examination of a state (done once per distinct state)
    void examine() {
        std::set<int> S0 = stored();
        if (!c13) for (size_t pi = 0; pi < U->patterns.size(); pi++) check_notify((int)pi, {}, "");
        // stored keys are prefix-closed, contain every key with a live subscription, exists(pattern) and depth() agree with them (C13's clauses: not judged by the C06 run)
        if (!c13) return;
        size_t maxlen = 0;
        for (int k : S0) {
            const Path &p = U->all_keys[k]; maxlen = std::max(maxlen, p.size());
            if (p.size() > 1 && !S0.count(all_index(Path(p.begin(), p.end() - 1)))) bad("exists:not-prefix-closed", "exists(" + path_str(p) + ") but its parent key does not exist");
        }
        for (auto &s : subs) if (s.live) { int ai = all_index(U->sub_keys[s.key]); if (!S0.count(ai)) bad("exists:live-key-missing", "key " + path_str(U->sub_keys[s.key]) + " has a live subscription but exists() is false"); }
        for (int k : has_subject) if (!S0.count(k)) bad("exists:subject-key-missing", "model bookkeeping: key " + path_str(U->all_keys[k]) + " holds a subject but does not exist");
        for (size_t pi = 0; pi < U->patterns.size(); pi++) {
            bool want = false; for (int k : S0) want |= matches(U->patterns[pi], U->all_keys[k]);
            bool got = router->exists(K.pat_rk((int)pi));
            if (got != want) bad("exists:pattern", fmt("exists(%s) == %d, but %s stored key matches it level by level", pat_str(U->patterns[pi]).c_str(), got, want ? "a" : "no"));
        }
        size_t d = router->depth();
        if (d != 1 + maxlen) bad("depth", fmt("depth() == %zu, expected %zu (one more than the longest stored key)", d, 1 + maxlen));
    }

    void apply(const Op &o, bool check) {
        switch (o.kind) {
        case SUBSCRIBE: {
            int obs = (int)subs.size();
            handles.emplace_back();
            auto cb = [obs](typename Observer<Args...>::SelfView self, Args... a) {
                int me = obs; g_calls.push_back(Call{me, show(a...)});
                if (g_self_invalidate.count(me)) { g_self_invalidate.erase(me); self->invalidate(); }
            };
            // the key object handed to subscribe() is a temporary that dies right after the call: the router must not keep references into it
            handles[obs].h.emplace(router->template subscribe<Args...>(build_key(U->sub_keys[o.arg]), cb));
            subs.push_back(MSub{obs, o.arg});
            has_subject.insert(all_index(U->sub_keys[o.arg]));
            break;
        }
        case UNSUB: handles[o.arg].unsubscribe(); subs[o.arg].live = false; break;
        case INVAL_H: {      // invalidate through the handle, then the next notify of its key removes it without invoking it
            handles[o.arg].invalidate();
            int pi = concrete_pattern(subs[o.arg].key);
            if (check) check_notify(pi, {subs[o.arg].obs}, "after invalidate(): "); else { S::notify(*router, K.pat_rk(pi)); drop_pending(U->patterns[pi]); }
            subs[o.arg].live = false; break;
        }
        case INVAL_P: handles[o.arg].invalidate(); subs[o.arg].live = false; subs[o.arg].pending = true; break;
        case INVAL_S: {      // the observer invalidates itself from inside its callback: it is invoked this one last time
            g_self_invalidate.insert(subs[o.arg].obs);
            int pi = concrete_pattern(subs[o.arg].key);
            if (check) check_notify(pi, {}, "self-invalidating round: "); else { S::notify(*router, K.pat_rk(pi)); drop_pending(U->patterns[pi]); }
            subs[o.arg].live = false; break;
        }
        case SHRINK: {
            int pi = U->shrink_patterns[o.arg]; const Pattern &p = U->patterns[pi];
            std::set<int> before = check ? stored() : std::set<int>();
            router->shrink(build_pattern(U->patterns[pi]));      // a temporary as well
            std::set<int> after = stored();
            for (auto it = has_subject.begin(); it != has_subject.end();) if (!after.count(*it)) it = has_subject.erase(it); else ++it;
            // an invalidated observer that no notify has reached yet is still stored: its handle must stay usable (the subject behind it must not be gone)
            for (size_t i = 0; i < subs.size(); i++) if (subs[i].pending && !handles[i].is_valid()) bad("shrink:pending-handle", fmt("after shrink(%s) the handle of the invalidated but not yet removed observer %zu reports invalid", pat_str(p).c_str(), i));
            if (!check) break;
            last_removed.clear(); for (int k : before) if (!after.count(k)) last_removed.push_back(k);      // (both runs subscribe these again at once, see bfs)
            if (!c13) break;      // the removal rules are C13's clauses: not judged by the C06 run (which still compares every delivery after the shrink with the model)
            for (int k : after) if (!before.count(k)) bad("shrink:key-appeared", "shrink(" + pat_str(p) + ") made key " + path_str(U->all_keys[k]) + " appear");
            for (int k : before) if (!after.count(k)) {
                const Path &gone = U->all_keys[k];
                for (auto &s : subs) if (s.live || s.pending) { const Path &sk = U->sub_keys[s.key]; if (sk.size() >= gone.size() && std::equal(gone.begin(), gone.end(), sk.begin())) bad("shrink:live-key-removed", "shrink(" + pat_str(p) + ") removed key " + path_str(gone) + " although " + path_str(sk) + " still has a live subscription"); }
                // the parent of a removed key must lie along the pattern
                Path parent(gone.begin(), gone.end() - 1);
                bool along = parent.size() <= p.size();
                for (size_t i = 0; along && i < parent.size(); i++) along = lk_matches(p[i], parent[i]);
                if (!along) bad("shrink:off-pattern", "shrink(" + pat_str(p) + ") removed key " + path_str(gone) + " whose parent does not match the pattern");
            }
            bool full_wild = p.size() == 3 && p[0] == L_ALL && p[1] == L_ALL && p[2] == L_ALL;
            if (full_wild) {
                std::set<int> want; for (auto &s : subs) if (s.live || s.pending) { const Path &sk = U->sub_keys[s.key]; for (size_t n = 1; n <= sk.size(); n++) want.insert(all_index(Path(sk.begin(), sk.begin() + n))); }
                if (after != want) { std::string a, b; for (int k : after) a += path_str(U->all_keys[k]) + " "; for (int k : want) b += path_str(U->all_keys[k]) + " "; bad("shrink:dead-branch-left", "after a full-depth wildcard shrink the stored keys are {" + a + "}, expected exactly the keys that still lead to an observer {" + b + "}"); }
            }
            break;
        }
        }
    }

    int concrete_pattern(int subkey) {
        const Path &k = U->sub_keys[subkey]; Pattern p;
        for (auto &l : k) p.push_back(l == "a" ? L_A : l == "b" ? L_B : L_AB);
        for (size_t i = 0; i < U->patterns.size(); i++) if (U->patterns[i] == p) return (int)i;
        return 0;
    }

    template<typename N> static void node_key(const N &n, std::string &out) {
        out += n.m_name; out += n.m_subject ? 'S' : '-';
        if (n.m_subject) { for (auto &d : n.m_subject->m_observers) out += d.observer->isValid() ? 'v' : 'x'; }
        out += '(';
        for (auto &kv : n.m_children) node_key(kv.second, out);
        out += ')';
    }

    // The routing tree is read from the implementation's own fields.  Should a refactoring rename them, the harness still builds and describes the tree through the public
    // API instead: which storable keys exist, and for each whether it holds a subject and how many observers answer a notification of exactly that key.
    template<typename RR> static constexpr bool known_layout_v = requires(const RR &r) { plain(r).m_rootNode.m_name; plain(r).m_rootNode.m_children.begin(); (bool)plain(r).m_rootNode.m_subject; };
    void tree_key(std::string &k) {
        if constexpr (known_layout_v<R>) node_key(plain(*router).m_rootNode, k);
        else for (size_t i = 0; i < U->all_keys.size(); i++) {
            if (!router->exists(K.all_rk((int)i))) { k += '.'; continue; }
            g_calls.clear(); size_t ret = S::notify(*router, K.all_rk((int)i)); k += fmt("%zu/%zu,", ret, g_calls.size()); g_calls.clear();
        }
    }

    std::string step(const std::vector<Op> &h, const Op *o, bool &okp, bool full) {
        g_calls.clear(); g_self_invalidate.clear(); K.clear();
        router = std::make_unique<R>(); handles.clear(); handles.reserve(64); subs.clear(); has_subject.clear();
        for (auto &p : h) apply(p, false);
        okp = !o || pre(*o);
        std::string k;
        if (okp) {
            if (o) apply(*o, true);
            // cheap public observations are part of the canonical key: a router that answers differently although its tree looks the same (a cached value gone stale, say) is a different state and gets examined
            k = fmt("d%zu:", router->depth());
            tree_key(k);
            k += "|"; for (auto &s : subs) if (s.live) k += fmt("%d@%d,", s.obs, s.key);      // which of the history's observers are live (ids matter to the oracle only)

            if (full) examine();
            if (light && o && o->kind == SUBSCRIBE) {
                // a key subscribed again right after a shrink removed it: the new observer is reached through its own key, the key exists, depth() agrees
                int pi = concrete_pattern(o->arg);
                bool saved = c13; c13 = false; check_notify(pi, {}, "re-subscribed after shrink: "); c13 = saved;
                if (c13) {      // exists() and depth() are C13's clauses
                if (!router->exists(K.sub_rk(o->arg))) bad("exists:live-key-missing", "key " + path_str(U->sub_keys[o->arg]) + " was subscribed again after a shrink had removed it, but exists() is false");
                size_t maxlen = 0; for (int kk : stored()) maxlen = std::max(maxlen, U->all_keys[kk].size());
                if (router->depth() != 1 + maxlen) bad("depth", fmt("depth() == %zu after a re-subscribe, expected %zu", router->depth(), 1 + maxlen));
                }
            }
            bool has_shrink = o && o->kind == SHRINK; for (auto &p : h) has_shrink |= p.kind == SHRINK;
            if (full && c13 && has_shrink) {
                // "shrink never changes what notify delivers": the same history without its shrink calls must deliver exactly the same, pattern by pattern (no reference model involved)
                auto with = all_deliveries();
                g_calls.clear(); g_self_invalidate.clear(); K.clear();
                handles.clear(); router = std::make_unique<R>(); handles.reserve(64); subs.clear(); has_subject.clear();
                for (auto &p : h) if (p.kind != SHRINK) apply(p, false);
                if (o && o->kind != SHRINK) apply(*o, false);
                auto without = all_deliveries();
                for (size_t pi = 0; pi < with.size(); pi++) if (!(with[pi] == without[pi])) {
                    std::string a, b; for (auto &c : with[pi]) a += fmt("%d(%s) ", c.obs, c.args.c_str()); for (auto &c : without[pi]) b += fmt("%d(%s) ", c.obs, c.args.c_str());
                    bad("shrink:delivery-changed", fmt("notify(%s) invokes [%s] in this history, but [%s] in the same history without its shrink calls", pat_str(U->patterns[pi]).c_str(), a.c_str(), b.c_str()));
                    break;
                }
            }
        }
        handles.clear(); router.reset();
        return k;
    }
};

// canonical key without observer ids (so that histories that differ only in which ids survive are merged)
std::string canon(const std::string &k) { return k.substr(0, k.find('|')); }

template<typename R, typename... Args> void bfs(int maxlive, bool c13, const char *rname) {
    Sys<R, Args...> sys; sys.maxlive = maxlive; sys.c13 = c13;
    std::vector<Op> alpha;
    for (int i = 0; i < (int)U->sub_keys.size(); i++) alpha.push_back(Op{SUBSCRIBE, i});
    for (int i = 0; i < 14; i++) { alpha.push_back(Op{UNSUB, i}); alpha.push_back(Op{INVAL_H, i}); alpha.push_back(Op{INVAL_S, i}); alpha.push_back(Op{INVAL_P, i}); }
    for (int i = 0; i < (int)U->shrink_patterns.size(); i++) alpha.push_back(Op{SHRINK, i});
    std::string prefix = fmt("router=%s sig=%s maxlive=%d c13=%d :", rname, Sig<Args...>::name, maxlive, (int)c13);
    auto hs = [&](const std::vector<Op> &h, const Op *o) { std::string s = prefix; for (auto &p : h) s += " " + op_str(p); if (o) s += " " + op_str(*o); return s; };
    std::set<std::string> seen; std::deque<std::vector<Op>> frontier;
    bool okp; mark(hs({}, nullptr));
    seen.insert(canon(sys.step({}, nullptr, okp, true))); shm->states++; frontier.push_back({});
    while (!frontier.empty()) {
        if (deadline_passed()) { shm->exhaustive = 0; return; }
        auto h = std::move(frontier.front()); frontier.pop_front();
        if (h.size() >= 14) { shm->exhaustive = 0; continue; }
        for (auto &o : alpha) {
            mark(hs(h, &o));
            std::string k = sys.step(h, &o, okp, false);
            if (!okp) continue;
            shm->transitions++; shm->evaluations++;
            if (o.kind == SHRINK && !sys.last_removed.empty()) {
                // "shrink ... and re-subscribe": whatever this shrink removed is subscribed again at once (the state it leads to may look like one that was reached without any shrink)
                std::vector<int> removed = sys.last_removed;
                auto h2 = h; h2.push_back(o);
                for (int rk : removed) for (int si = 0; si < (int)U->sub_keys.size(); si++) if (U->sub_keys[si] == U->all_keys[rk]) {
                    Op s{SUBSCRIBE, si}; bool ok2;
                    mark(hs(h2, &s) + " [re-subscribe]");
                    sys.light = true; sys.step(h2, &s, ok2, false); sys.light = false;
                    if (ok2) { shm->transitions++; shm->evaluations++; }
                }
            }
            sys.last_removed.clear();
            if (seen.insert(canon(k)).second) {
                shm->states++;
                mark(hs(h, &o) + " [examine]");
                sys.step(h, &o, okp, true);          // full examination of the new state: every probe pattern
                shm->evaluations += U->patterns.size(); shm->nontrivial += sys.live_count() > 0 ? U->patterns.size() : 0;
                auto h2 = h; h2.push_back(o);
                if (shm->states % 301 == 5) sample(hs(h, &o) + "  => state " + canon(k));
                frontier.push_back(std::move(h2));
            }
        }
    }
}

// Every probe pattern built in every style (the first k levels through the variadic RoutingKeyBuilder constructor, the rest chained) must route exactly like the
// independent matcher says, on a router that holds one observer under every subscribable key.
template<typename R> void builder_styles(const char *rname) {
    R router;
    std::vector<int> called;
    std::vector<decltype(router.template subscribe<>(build_key(U->sub_keys[0]), [] {}))> subs;
    for (size_t i = 0; i < U->sub_keys.size(); i++) { int id = (int)i; subs.push_back(router.template subscribe<>(build_key(U->sub_keys[i]), [&called, id] { called.push_back(id); })); }
    for (size_t pi = 0; pi < U->patterns.size(); pi++) {
        const Pattern &p = U->patterns[pi];
        for (size_t k = 0; k <= p.size(); k++) {
            bool ok = true; for (size_t j = 0; j < k; j++) ok &= p[j] != L_ALL;      // all() exists only as a chained call
            if (!ok) continue;
            std::string hist = fmt("builder router=%s pattern=%zu split=%zu", rname, pi, k);
            mark(hist);
            called.clear();
            size_t ret = router.notify(build_split(p, k, 0));
            std::vector<int> want; for (size_t i = 0; i < U->sub_keys.size(); i++) if (matches(p, U->sub_keys[i])) want.push_back((int)i);
            std::sort(called.begin(), called.end());
            shm->evaluations++; shm->transitions++; if (!want.empty()) shm->nontrivial++;
            if (called != want || ret != want.size()) {
                std::string a, b; for (int c : called) a += path_str(U->sub_keys[c]) + " "; for (int c : want) b += path_str(U->sub_keys[c]) + " ";
                violation("builder:delivery", fmt("notify(%s), pattern built with the first %zu level(s) through the RoutingKeyBuilder constructor and the rest chained, returned %zu and reached {%s}; the matching keys are {%s}", pat_str(p).c_str(), k, ret, a.c_str(), b.c_str()), hist);
            }
        }
    }
}

// Many keys: W children under the root and W more under one of them.  Whatever the tree does differently above some fan-out (another container, a cache of the last
// children, a sorted vector) is on both sides of it here.  Deliveries are judged by the C06 run, what shrink keeps and removes by the C13 run.
template<typename R> void wide_router(const char *rname, int maxw, bool c13) {
    for (int W = 1; W <= maxw; W++) {
        if (deadline_passed()) { shm->exhaustive = 0; return; }
        std::string hist = fmt("wide router=%s c13=%d width=%d", rname, (int)c13, W);
        mark(hist);
        auto name = [](int i) { return std::string("k") + std::to_string(i) + (i % 3 == 2 ? "-a-level-name-longer-than-any-small-string-buffer" : ""); };
        int mid = W / 2;
        R router;
        std::vector<int> called;
        std::vector<HandleOf<R>> top, sub;
        // subscribe in an order that is neither ascending nor descending
        std::vector<int> order; for (int i = 0; i < W; i++) order.push_back((i * 7 + 3) % W); { std::set<int> u(order.begin(), order.end()); if ((int)u.size() != W) { order.clear(); for (int i = 0; i < W; i++) order.push_back(i); } }
        top.resize(W); sub.resize(W);
        for (int i : order) { top[i].h.emplace(router.template subscribe<>(build_key({name(i)}), [&called, i] { called.push_back(i); })); sub[i].h.emplace(router.template subscribe<>(build_key({name(mid), name(i)}), [&called, i] { called.push_back(1000 + i); })); }
        std::set<int> live_top, live_sub; for (int i = 0; i < W; i++) { live_top.insert(i); live_sub.insert(i); }
        std::set<int> has_top = live_top, has_sub = live_sub;      // keys that hold a Subject (an emptied Subject stays until a shrink removes it; notify() returns the number of Subjects it reached)
        auto probe = [&](const char *what, const RoutingKey &key, int level, auto pred) {
            called.clear();
            size_t ret = router.notify(key);
            std::vector<int> got = called; std::sort(got.begin(), got.end()); called.clear();
            std::vector<int> want; size_t want_ret = 0;
            if (level == 1) { for (int i : live_top) if (pred(i)) want.push_back(i); for (int i : has_top) if (pred(i)) want_ret++; }
            else { for (int i : live_sub) if (pred(i)) want.push_back(1000 + i); for (int i : has_sub) if (pred(i)) want_ret++; }
            shm->evaluations++; shm->transitions++; if (!want.empty()) shm->nontrivial++;
            if (got != want || ret != want_ret)
                violation(c13 ? "wide:delivery-after-shrink" : "wide:delivery", fmt("%d keys per level%s: %s returned %zu and invoked %zu observers, expected %zu and %zu (each observer under a matching key once)", W, c13 ? ", after a shrink" : "", what, ret, got.size(), want_ret, want.size()), hist);
        };
        auto probes = [&] {
            for (int i : std::set<int>{0, mid, W - 1}) {
                probe("notify(k<i>)", build_key({name(i)}), 1, [&](int j) { return j == i; });
                probe("notify(k<mid>/k<i>)", build_key({name(mid), name(i)}), 2, [&](int j) { return j == i; });
                probe("notify(*/k<i>)", RoutingKeyBuilder().all().level(name(i)).build(), 2, [&](int j) { return j == i; });
            }
            probe("notify(*)", RoutingKeyBuilder().all().build(), 1, [](int) { return true; });
            probe("notify(k<mid>/*)", RoutingKeyBuilder().level(name(mid)).all().build(), 2, [](int) { return true; });
            probe("notify(*/*)", RoutingKeyBuilder().all().all().build(), 2, [](int) { return true; });
            probe("notify(/k.*/)", RoutingKeyBuilder().level(std::regex("k.*")).build(), 1, [](int) { return true; });
            probe("notify(/k1.*/)", RoutingKeyBuilder().level(std::regex("k1.*")).build(), 1, [&](int j) { return name(j).compare(0, 2, "k1") == 0; });
            probe("notify(/k.*/ / /k.*3/)", RoutingKeyBuilder().level(std::regex("k.*")).level(std::regex("k.*3")).build(), 2, [&](int j) { return name(j).back() == '3'; });
            probe("notify(missing)", build_key({"zz"}), 1, [](int) { return false; });
        };
        if (!c13) probes();
        // every other observer leaves (the middle one of the top level stays: it carries the second level)
        for (int i = 0; i < W; i += 2) { if (i != mid) { top[i].unsubscribe(); live_top.erase(i); } sub[i].unsubscribe(); live_sub.erase(i); }
        if (!c13) probes();
        if (c13) {
            auto state = [&](const char *when) {
                shm->evaluations++; shm->transitions++; shm->nontrivial++;
                for (int i = 0; i < W; i++) {
                    bool t = router.exists(build_key({name(i)})), u = router.exists(build_key({name(mid), name(i)}));
                    if (live_top.count(i) && !t) violation("wide:live-key-missing", fmt("%d keys per level, %s: exists(k%d) is false although an observer is subscribed there", W, when, i), hist);
                    if (live_sub.count(i) && !u) violation("wide:live-key-missing", fmt("%d keys per level, %s: exists(k%d/k%d) is false although an observer is subscribed there", W, when, mid, i), hist);
                    if (strcmp(when, "before the shrink") && !live_top.count(i) && i != mid && t) violation("wide:dead-key-kept", fmt("%d keys per level, %s: exists(k%d) is true although nothing is subscribed at or below it", W, when, i), hist);
                    if (strcmp(when, "before the shrink") && !live_sub.count(i) && u) violation("wide:dead-key-kept", fmt("%d keys per level, %s: exists(k%d/k%d) is true although nothing is subscribed at or below it", W, when, mid, i), hist);
                }
                size_t want = live_sub.empty() ? (live_top.empty() ? 1 : 2) : 3;
                if (strcmp(when, "before the shrink") && router.depth() != want) violation("wide:depth", fmt("%d keys per level, %s: depth() == %zu, expected %zu", W, when, router.depth(), want), hist);
            };
            state("before the shrink");
            router.shrink(RoutingKeyBuilder().all().all().build());
            has_top = live_top; has_top.insert(mid); has_sub = live_sub;
            if (live_sub.empty() && !live_top.count(mid)) has_top.erase(mid);
            state("after shrink(*/*)");
            probes();
            // what the shrink removed is subscribed again
            for (int i = 0; i < W; i += 2) { if (i != mid) { top[i].h.emplace(router.template subscribe<>(build_key({name(i)}), [&called, i] { called.push_back(i); })); live_top.insert(i); } sub[i].h.emplace(router.template subscribe<>(build_key({name(mid), name(i)}), [&called, i] { called.push_back(1000 + i); })); live_sub.insert(i); }
            has_top = live_top; has_sub = live_sub;
            state("after subscribing the removed keys again");
            probes();
        }
    }
}

void explore() {
    bool c13 = opt.property == "C13";
    build_universe(thorough());
    int maxlive = thorough() ? 3 : 2;
    std::vector<std::function<void()>> tasks;
    if (c13) {
        tasks.push_back([=] { bfs<SubjectRouter>(maxlive, true, "plain"); });
        tasks.push_back([=] { bfs<ConcurrentSubjectRouter>(maxlive, true, "concurrent"); });
        if (thorough()) tasks.push_back([=] { bfs<SubjectRouter, const std::string &>(2, true, "plain"); });
    } else {
        tasks.push_back([=] { bfs<SubjectRouter>(maxlive, false, "plain"); });
        tasks.push_back([=] { bfs<SubjectRouter, int>(maxlive, false, "plain"); });
        tasks.push_back([=] { bfs<SubjectRouter, const std::string &>(2, false, "plain"); });
        tasks.push_back([=] { bfs<SubjectRouter, std::string>(maxlive, false, "plain"); });
        tasks.push_back([=] { bfs<SubjectRouter, std::string, int>(2, false, "plain"); });
        tasks.push_back([=] { bfs<ConcurrentSubjectRouter>(2, false, "concurrent"); });
        tasks.push_back([=] { bfs<ConcurrentSubjectRouter, std::string>(2, false, "concurrent"); });
        tasks.push_back([=] { bfs<ConcurrentSubjectRouter, int>(2, false, "concurrent"); });
        tasks.push_back([=] { builder_styles<SubjectRouter>("plain"); builder_styles<ConcurrentSubjectRouter>("concurrent"); });
    }
    { int maxw = thorough() ? 70 : 40; tasks.push_back([=] { wide_router<SubjectRouter>("plain", maxw, c13); wide_router<ConcurrentSubjectRouter>("concurrent", maxw, c13); }); }
    parallel(tasks);
    shm->validated = shm->evaluations;
    sx::detail(fmt("many keys: 1..%d children under the root and as many under one of them, an observer under each; concrete, wildcard and regex notifies%s", thorough() ? 70 : 40,
                   c13 ? " after half of the observers left and shrink(*/*) ran: live keys exist, dead keys are gone, depth() agrees, the removed keys can be subscribed again" : " before and after half of the observers left"));
    sx::detail(fmt("key universe: %zu subscribable keys (depth 1..3 over the level names a, b, ab: equal names at different levels, one name a prefix of another), %zu storable keys; probe set: all %zu patterns of depth 1..3 over literal/wildcard/regex levels; "
                   "shrink patterns: %zu; at most %d live subscriptions (2 per key) and 2 dead keys at a time; states are merged on the implementation's routing tree (node names, subject presence, observer counts); one search per router type and argument signature, run in parallel",
                   U->sub_keys.size(), U->all_keys.size(), U->patterns.size(), U->shrink_patterns.size(), maxlive));
}

void replay(const std::string &hist) {
    char rn[32], sig[32]; int maxlive, c13;
    if (hist.compare(0, 5, "wide ") == 0) {
        int w = 1, c = 0; const char *q = strstr(hist.c_str(), "width="); if (q) w = atoi(q + 6); q = strstr(hist.c_str(), "c13="); if (q) c = atoi(q + 4);
        if (hist.find("router=plain") != std::string::npos) wide_router<SubjectRouter>("plain", w, c); else wide_router<ConcurrentSubjectRouter>("concurrent", w, c);
        return;
    }
    if (hist.compare(0, 8, "builder ") == 0) {      // cheap enough to be repeated as a whole
        build_universe(thorough());
        if (hist.find("router=plain") != std::string::npos) builder_styles<SubjectRouter>("plain"); else builder_styles<ConcurrentSubjectRouter>("concurrent");
        return;
    }
    if (sscanf(hist.c_str(), "router=%31s sig=%31s maxlive=%d c13=%d :", rn, sig, &maxlive, &c13) != 4) { violation("replay:parse", "cannot parse " + hist); return; }
    build_universe(thorough());
    std::string body = hist.substr(hist.find(':') + 1);
    size_t ex = body.find("[examine]"); bool full = true; if (ex != std::string::npos) body = body.substr(0, ex);
    bool light = false; size_t rs = body.find("[re-subscribe]"); if (rs != std::string::npos) { body = body.substr(0, rs); light = true; full = false; }
    std::vector<Op> h;
    if (!parse_ops(body, h)) { violation("replay:parse", "cannot parse ops in " + hist); return; }
    auto go = [&](auto sys) { sys.maxlive = maxlive; sys.c13 = c13; sys.light = light; bool okp; if (h.empty()) { sys.step({}, nullptr, okp, full); return; } Op last = h.back(); std::vector<Op> pre(h.begin(), h.end() - 1); sys.step(pre, &last, okp, full); };
    std::string r = rn, s = sig;
    if (r == "plain") {
        if (s == "void") go(Sys<SubjectRouter>{}); else if (s == "int") go(Sys<SubjectRouter, int>{}); else if (s == "cstr") go(Sys<SubjectRouter, const std::string &>{});
        else if (s == "str") go(Sys<SubjectRouter, std::string>{}); else go(Sys<SubjectRouter, std::string, int>{});
    } else {
        if (s == "void") go(Sys<ConcurrentSubjectRouter>{}); else if (s == "int") go(Sys<ConcurrentSubjectRouter, int>{}); else go(Sys<ConcurrentSubjectRouter, std::string>{});
    }
}
}  // namespace

int main(int argc, char **argv) {
    Harness h;
    h.name = "router-seq";
    h.rule = "explicit-state search: a state is an operation history (subscribe under a concrete key, unsubscribe, invalidate-through-handle + notify, self-invalidating callback + notify, shrink with concrete/regex/wildcard patterns) replayed on a fresh real router, "
             "keyed by the implementation's routing tree; breadth-first to fixpoint under a bound on live subscriptions; in every distinct state EVERY pattern of the probe universe is notified and compared (observers invoked, multiplicity, received values, "
             "return count) with an independent level-by-level matcher, exists() and depth() are compared with the stored key set; every shrink transition is checked against the removal rules; non-trivial = probe in a state with live observers";
    h.assumptions = {"bounded key universe, pattern universe and number of live subscriptions as stated", "all keys of one router carry the same argument signature (mixing signatures is documented as undefined)",
                     "regex semantics of the three regex levels are re-implemented by hand in the oracle"};
    h.explore = explore; h.replay = replay;
    return run_main(argc, argv, h);
}
