#!/bin/bash
# usage: tools/seed_eval.sh <property id> <check ids...>
# Confirms a seeded change that a sub-agent left in /tmp/seed-<id> (patch applied there, deliverables in SEED/):
#   repository tests pass with it, the demo fails with it and passes without it, then runs the listed quick checks against it.
set -u
ID=$1; shift
# SEED_ROUND=2 evaluates /tmp/seed2-<id> into seeded/<id>-r2 (a second, independent change for the same property)
R=${SEED_ROUND:-1}
if [ "$R" = 1 ]; then W=/tmp/seed-$ID; SUF=""; else W=/tmp/seed$R-$ID; SUF="-r$R"; fi
V=$(dirname "$(dirname "$(realpath "$0")")")
D=$V/seeded/$ID$SUF
mkdir -p "$D"
cp "$W/SEED/patch.diff" "$D/patch.diff"
for f in demo.cpp run_demo.sh notes.md; do [ -f "$W/SEED/$f" ] && cp "$W/SEED/$f" "$D/$f"; done
for f in "$W"/SEED/*; do b=$(basename "$f"); case "$b" in patch.diff|demo.cpp|run_demo.sh|notes.md) ;; *) [ -f "$f" ] && [ $(stat -c %s "$f") -lt 200000 ] && file "$f" | grep -q text && cp "$f" "$D/$b";; esac; done
cd "$W" || exit 2
# make sure the patch is applied exactly once
git checkout -q -- include src 2>/dev/null; git apply SEED/patch.diff || { echo "patch does not apply"; exit 2; }
echo "== repository tests with the change"
"$V/tools/baseline.sh" "$W" 2>&1 | tail -1 | tee "$D/.baseline"
rm -rf "$W/_build"
echo "== demo with the change (must fail)"
(cd SEED && timeout 600 bash ./run_demo.sh >/tmp/seed-$ID.demo1 2>&1); rc1=$?; echo "rc=$rc1"; tail -3 /tmp/seed-$ID.demo1
git apply -R SEED/patch.diff
echo "== demo without the change (must pass)"
(cd SEED && timeout 600 bash ./run_demo.sh >/tmp/seed-$ID.demo2 2>&1); rc2=$?; echo "rc=$rc2"; tail -2 /tmp/seed-$ID.demo2
git apply SEED/patch.diff
echo "== checks against the change"
res=""
for c in "$@"; do
  out=$(cd "$V" && VERIF_REPO="$W" VERIF_EVIDENCE_DIR=/tmp/seed-$ID.evidence ./check "$c" --tier quick 2>/dev/null); rc=$?
  first=$(echo "$out" | grep -A1 '^VIOLATION' | head -2 | tail -1 | cut -c1-300)
  if [ $rc = 1 ]; then echo "DETECTED by $c: $first"; res="$res{\"check\":\"$c\",\"detected\":true,\"first\":$(python3 -c 'import json,sys; print(json.dumps(sys.argv[1]))' "$first")},"; else echo "MISSED by $c (rc=$rc): $(echo "$out" | tail -1 | cut -c1-160)"; res="$res{\"check\":\"$c\",\"detected\":false},"; fi
done
python3 - "$ID$SUF" "$rc1" "$rc2" "$(cat $D/.baseline)" "[${res%,}]" <<'PY'
import json,sys,os
pid,rc1,rc2,base,res=sys.argv[1:6]
d=os.path.join(os.path.dirname(os.path.dirname(os.path.abspath("/verif/tools/x"))),"seeded",pid)
meta={"property":pid[:3],"origin":"sub-agent given only the property text and a scratch worktree","repository_tests_with_change":base.strip(),
      "demo_exit_with_change":int(rc1),"demo_exit_without_change":int(rc2),"confirmed":int(rc1)!=0 and int(rc2)==0 and "60/60" in base,
      "ran":["tools/baseline.sh <worktree>","SEED/run_demo.sh with and without patch.diff","VERIF_REPO=<worktree> ./check <id> --tier quick"],"checks":json.loads(res)}
old={}
p=os.path.join(d,"meta.json")
if os.path.exists(p): old=json.load(open(p))
# a re-evaluation after the checks were strengthened keeps the verdicts of the first evaluation
if os.environ.get("SEED_REEVAL") and "checks" in old and "checks_first_evaluation" not in old: old["checks_first_evaluation"]=old["checks"]
old.update(meta); json.dump(old,open(p,"w"),indent=1)
print(json.dumps(meta,indent=1)[:600])
PY
rm -f "$D/.baseline" /tmp/seed-$ID.demo1 /tmp/seed-$ID.demo2; rm -rf /tmp/seed-$ID.evidence
