// E2 harness for tulz::RingBuffer: C04 (bounded-deque behaviour, T=int) and C09 (element lifetimes, T=Tracked).
#include <tulz/container/RingBuffer.h>

#include <algorithm>
#include <deque>
#include <limits>
#include <memory>
#include <set>
#include <string>
#include <vector>

#include "seqx.h"

using namespace sx;
using tulz::RingBuffer;

namespace {
// ---- operation alphabet (simplest first)
// AB/AF/XB/XF: the pushed value is an element of the buffer itself (push_back(front()), push_front(back()), emplace_back(front()), emplace_front(back())): on a full
// overwriting buffer the argument is the very element that is about to be discarded
enum OpKind { PB, PF, EB, EF, OB, OF, RS, CC, MV, SA, CA, MA, AB, AF, XB, XF, NKINDS };
struct Op { int kind; int arg; };
const char *kname[] = {"pb", "pf", "eb", "ef", "ob", "of", "rs", "cc", "mv", "sa", "ca", "ma", "ab", "af", "xb", "xf"};

std::string op_str(const Op &o) { std::string s = kname[o.kind]; if (o.kind == RS || o.kind == CA || o.kind == MA) s += std::to_string(o.arg); return s; }

// element types: int; the lifetime-tracked class (C09); a bitwise-relocatable class that owns heap memory (values live behind a pointer: a copy taken from a dead element is visible)
struct Boxed {
    int *p;
    Boxed(int v) : p(new int(v)) {}
    Boxed(const Boxed &o) : p(new int(*o.p)) {}
    Boxed(Boxed &&o) noexcept : p(o.p) { o.p = new int(-996); }
    Boxed &operator=(const Boxed &o) { if (this != &o) { int *n = new int(*o.p); delete p; p = n; } return *this; }
    Boxed &operator=(Boxed &&o) noexcept { if (this != &o) { delete p; p = o.p; o.p = new int(-996); } return *this; }
    ~Boxed() { delete p; p = nullptr; }
    bool operator==(const Boxed &o) const { return *p == *o.p; }
};
enum { TY_INT = 0, TY_TRACKED = 1, TY_BOXED = 2 };
const char *tname[] = {"int", "tracked", "boxed"};
struct Config { bool ow; int cap; int init; bool tracked; int type = 0; };       // init = number of elements given through the initializer list
std::string cfg_str(const Config &c) { return fmt("ow=%d cap=%d init=%d T=%s :", c.ow, c.cap, c.init, tname[c.tracked ? TY_TRACKED : c.type]); }

std::string hist_str(const Config &c, const std::vector<Op> &h, const Op *inflight = nullptr) {
    std::string s = cfg_str(c);
    for (auto &o : h) s += " " + op_str(o);
    if (inflight) s += " " + op_str(*inflight);
    return s;
}

bool parse_hist(const std::string &s, Config &c, std::vector<Op> &h) {
    int ow, cap, init; char t[32];
    if (sscanf(s.c_str(), "ow=%d cap=%d init=%d T=%31s :", &ow, &cap, &init, t) != 4) return false;
    c.ow = ow; c.cap = cap; c.init = init; c.tracked = std::string(t) == "tracked"; c.type = c.tracked ? TY_TRACKED : std::string(t) == "boxed" ? TY_BOXED : TY_INT;
    std::stringstream ss(s.substr(s.find(':') + 1)); std::string tok;
    while (ss >> tok) {
        bool ok = false;
        for (int k = 0; k < NKINDS; k++) if (tok.compare(0, 2, kname[k]) == 0) { h.push_back(Op{k, tok.size() > 2 ? atoi(tok.c_str() + 2) : 0}); ok = true; break; }
        if (!ok) return false;
    }
    return true;
}

template<typename T> int val(const T &x);
template<> int val<int>(const int &x) { return x; }
template<> int val<Tracked>(const Tracked &x) { return x.value(); }
template<> int val<Boxed>(const Boxed &x) { return *x.p; }

struct Model { std::deque<int> d; size_t cap; };

void m_push_back(Model &m, int v) { if (m.d.size() == m.cap) m.d.pop_front(); m.d.push_back(v); }
void m_push_front(Model &m, int v) { if (m.d.size() == m.cap) m.d.pop_back(); m.d.push_front(v); }

bool precondition(const Model &m, bool ow, const Op &o) {
    switch (o.kind) {
    case PB: case PF: case EB: case EF: return ow || m.d.size() < m.cap;
    case AB: case AF: case XB: case XF: return !m.d.empty() && (ow || m.d.size() < m.cap);
    case OB: case OF: return !m.d.empty();
    default: return true;
    }
}

int g_label;

template<typename T, bool OW> struct Sys {
    using RB = RingBuffer<T, OW>;
    Config cfg;
    std::string where;      // history in flight, for messages

    // C04 (T=int) reports disagreements with the bounded-deque model; C09 (T=Tracked) reports lifetime errors only -
    // a wrongly destroyed element also reads wrong, but that is a consequence, not a second finding
    void bad(const std::string &sig, const std::string &msg) { if (cfg.tracked && sig.compare(0, 6, "model:") == 0) return; violation(sig, msg); }

    // builds a wrapped, full buffer of capacity k with fresh labels; returns its expected contents
    static void make_other(RB &o, std::deque<int> &exp, int k) {
        for (int i = 0; i < k; i++) { int l = g_label++; o.push_back(T(l)); exp.push_back(l); }
        if (k >= 2) { (void)o.pop_front(); exp.pop_front(); int l = g_label++; o.push_back(T(l)); exp.push_back(l); }
    }

    template<bool OW2> void compare(const RingBuffer<T, OW2> &b, const std::deque<int> &d, size_t cap, const char *who) {
        if (b.size() != d.size()) bad("model:size", fmt("%s: size() == %zu, bounded deque has %zu", who, (size_t)b.size(), d.size()));
        if (b.capacity() != cap) bad("model:capacity", fmt("%s: capacity() == %zu, expected %zu", who, (size_t)b.capacity(), cap));
        if (b.empty() != d.empty()) bad("model:empty", fmt("%s: empty() == %d", who, b.empty()));
        if (b.full() != (d.size() == cap)) bad("model:full", fmt("%s: full() == %d with size %zu capacity %zu", who, b.full(), d.size(), cap));
        size_t n = std::min<size_t>(b.size(), d.size());
        for (size_t i = 0; i < n; i++) if (val<T>(b[i]) != d[i]) { bad("model:index", fmt("%s: [%zu] == %d, bounded deque has %d", who, i, val<T>(b[i]), d[i])); break; }
        size_t i = 0;
        for (auto it = b.begin(); it != b.end(); ++it, ++i) { if (i >= d.size() || val<T>(*it) != d[i]) { bad("model:iteration", fmt("%s: const iteration differs at position %zu", who, i)); break; } }
        if (i != b.size()) bad("model:iteration", fmt("%s: const iteration visited %zu elements, size() is %zu", who, i, (size_t)b.size()));
        if (b.cend() - b.cbegin() != (std::ptrdiff_t)b.size()) bad("model:iterator-distance", fmt("%s: cend()-cbegin() != size()", who));
    }

    void check_all(RB &b, const Model &m) {
        compare(b, m.d, m.cap, "buffer");
        const std::deque<int> &d = m.d;
        if (!d.empty() && b.size() == d.size()) {
            if (val<T>(b.front()) != d.front()) bad("model:front", fmt("front() == %d, expected %d", val<T>(b.front()), d.front()));
            if (val<T>(b.back()) != d.back()) bad("model:back", fmt("back() == %d, expected %d", val<T>(b.back()), d.back()));
            if (&b.front() != &b[0] || &b.back() != &b[d.size() - 1]) bad("model:front-back-address", "front()/back() do not refer to [0]/[size-1]");
            // mutable iterators: arithmetic, comparison, reverse walk
            auto it = b.begin(), e = b.end();
            if (!(it < e) || !(e > it) || !(it <= e) || !(e >= it) || it == e || !(it != e)) bad("model:iterator-compare", "begin()/end() comparison operators inconsistent");
            for (size_t k = 0; k < d.size(); k++) {
                if (val<T>(*(it + (std::ptrdiff_t)k)) != d[k]) { bad("model:iterator-plus", fmt("*(begin()+%zu) wrong", k)); break; }
                if (val<T>(*(e - (std::ptrdiff_t)(k + 1))) != d[d.size() - 1 - k]) { bad("model:iterator-minus", fmt("*(end()-%zu) wrong", k + 1)); break; }
            }
            auto w = e; size_t k = d.size();
            while (w != it) { --w; --k; if (val<T>(*w) != d[k]) { bad("model:iterator-reverse", fmt("reverse walk differs at %zu", k)); break; } }
            auto p = it++; if (!(p == b.begin()) || it - p != 1) bad("model:iterator-postfix", "postfix ++ wrong");
            auto q = it--; if (!(it == b.begin()) || q - it != 1) bad("model:iterator-postfix", "postfix -- wrong");
            it += (std::ptrdiff_t)d.size(); if (!(it == e)) bad("model:iterator-pluseq", "begin() += size() != end()");
            it -= (std::ptrdiff_t)d.size(); if (!(it == b.begin())) bad("model:iterator-minuseq", "end() -= size() != begin()");
        }
        // operator== against independently built buffers of the OTHER overwrite mode
        {
            RingBuffer<T, !OW> same(m.cap + 1);
            for (int v : d) same.push_back(T(v));
            if (!(b == same)) bad("model:equality", "operator== false against a buffer with the same contents (other overwrite mode, other capacity)");
            RingBuffer<T, !OW> diff(m.cap + 1);
            for (int v : d) diff.push_back(T(v));
            diff.push_back(T(-5));
            if (b == diff) bad("model:equality", "operator== true against a buffer with one more element");
            if (!d.empty()) { RingBuffer<T, !OW> diff2(m.cap + 1); for (size_t k = 0; k < d.size(); k++) diff2.push_back(T(k + 1 == d.size() ? d[k] + 1000 : d[k])); if (b == diff2) bad("model:equality", "operator== true against a buffer whose last element differs"); }
        }
        if (cfg.tracked) {
            // exactly the logically present values are held by live objects (temporaries above are gone)
            std::multiset<int> live; for (int v : t_live_values()) live.insert(v);
            std::multiset<int> want(d.begin(), d.end());
            if (live != want) {
                std::string a, w2; for (int v : live) a += std::to_string(v) + " "; for (int v : want) w2 += std::to_string(v) + " ";
                bad("lifetime:live-set", "values held by live element objects {" + a + "} differ from the logical contents {" + w2 + "}: an element was destroyed wrongly or a removed element was not destroyed");
            }
        }
    }

    void apply(RB &b, Model &m, const Op &o, bool check) {
        switch (o.kind) {
        case PB: { int l = g_label++; T &r = b.push_back(T(l)); m_push_back(m, l); if (check && (&r != &b.back() || val<T>(r) != l)) bad("model:push-ref", "push_back did not return a reference to the inserted element"); break; }
        case PF: { int l = g_label++; T &r = b.push_front(T(l)); m_push_front(m, l); if (check && (&r != &b.front() || val<T>(r) != l)) bad("model:push-ref", "push_front did not return a reference to the inserted element"); break; }
        case EB: { int l = g_label++; T &r = b.emplace_back(l); m_push_back(m, l); if (check && (&r != &b.back() || val<T>(r) != l)) bad("model:push-ref", "emplace_back did not return a reference to the inserted element"); break; }
        case EF: { int l = g_label++; T &r = b.emplace_front(l); m_push_front(m, l); if (check && (&r != &b.front() || val<T>(r) != l)) bad("model:push-ref", "emplace_front did not return a reference to the inserted element"); break; }
        case AB: { int l = m.d.front(); T &r = b.push_back(b.front()); m_push_back(m, l); if (check && (&r != &b.back() || val<T>(r) != l)) bad("model:push-ref", fmt("push_back(front()) did not insert a copy of the front element (%d)", l)); break; }
        case AF: { int l = m.d.back(); T &r = b.push_front(b.back()); m_push_front(m, l); if (check && (&r != &b.front() || val<T>(r) != l)) bad("model:push-ref", fmt("push_front(back()) did not insert a copy of the back element (%d)", l)); break; }
        case XB: { int l = m.d.front(); T &r = b.emplace_back(b.front()); m_push_back(m, l); if (check && (&r != &b.back() || val<T>(r) != l)) bad("model:push-ref", fmt("emplace_back(front()) did not insert a copy of the front element (%d)", l)); break; }
        case XF: { int l = m.d.back(); T &r = b.emplace_front(b.back()); m_push_front(m, l); if (check && (&r != &b.front() || val<T>(r) != l)) bad("model:push-ref", fmt("emplace_front(back()) did not insert a copy of the back element (%d)", l)); break; }
        case OB: { T v = b.pop_back(); int e = m.d.back(); m.d.pop_back(); if (check && val<T>(v) != e) bad("model:pop-value", fmt("pop_back returned %d, expected %d", val<T>(v), e)); break; }
        case OF: { T v = b.pop_front(); int e = m.d.front(); m.d.pop_front(); if (check && val<T>(v) != e) bad("model:pop-value", fmt("pop_front returned %d, expected %d", val<T>(v), e)); break; }
        case RS: { b.resize((size_t)o.arg); while (m.d.size() > (size_t)o.arg) m.d.pop_back(); m.cap = (size_t)o.arg; break; }
        case CC: { RB twin(b); if (check) { compare(twin, m.d, m.cap, "copy-constructed twin"); if (!(twin == b)) bad("model:equality", "copy is not equal to its source"); } break; }
        case MV: { RB t(std::move(b)); if (check) compare(t, m.d, m.cap, "move-constructed buffer"); b = std::move(t); break; }
        case SA: { RB &self = b; b = self; break; }
        case CA: { RB other((size_t)o.arg); std::deque<int> exp; make_other(other, exp, o.arg); b = other; m.d = exp; m.cap = (size_t)o.arg;
                   if (check) compare(other, exp, (size_t)o.arg, "source of the copy assignment"); break; }
        case MA: { RB other((size_t)o.arg); std::deque<int> exp; make_other(other, exp, o.arg); b = std::move(other); m.d = exp; m.cap = (size_t)o.arg; break; }
        }
    }

    RB *construct(Model &m) {
        m.cap = (size_t)cfg.cap; m.d.clear();
        if (cfg.init == 0) return new RB((size_t)cfg.cap);
        RB *b = nullptr;
        int a = g_label, b2 = g_label + 1, c = g_label + 2; g_label += cfg.init;
        if (cfg.init == 1) { b = new RB({T(a)}, (size_t)cfg.cap); m.d = {a}; }
        else if (cfg.init == 2) { b = new RB({T(a), T(b2)}, (size_t)cfg.cap); m.d = {a, b2}; }
        else { b = new RB({T(a), T(b2), T(c)}, (size_t)cfg.cap); m.d = {a, b2, c}; }
        return b;
    }

    // The key is read from the implementation's own fields.  Should a refactoring rename them, the harness still builds: the key is then derived from the public API
    // (capacity, size and the physical arrangement of the elements as their addresses show it), which merges a little more (the head position of an EMPTY buffer is invisible).
    template<typename B> static constexpr bool known_layout_v = requires(const B &x) { (size_t)x.m_capacity; (ssize_t)x.m_pos; (size_t)x.m_size; &x.m_data[0]; };
    std::string key(const RB &b) {
        if constexpr (!known_layout_v<RB>) {
            std::string k = fmt("%d|%zu|pub|%zu|", (int)OW, (size_t)b.capacity(), (size_t)b.size());
            if (b.size() > 0) { const T *lo = &b[0]; size_t wrap = 0; for (size_t i = 1; i < b.size(); i++) { if (&b[i] < lo) lo = &b[i]; if (&b[i] < &b[i - 1]) wrap = i; } k += fmt("%zd|%zu", (ssize_t)(&b[0] - lo), wrap); }
            return k;
        } else return key_private(b);
    }
    template<typename B> std::string key_private(const B &b) {
        std::string k = fmt("%d|%zu|%zd|%zu", (int)OW, (size_t)b.m_capacity, (ssize_t)b.m_pos, (size_t)b.m_size);
        if (cfg.tracked) {
            k += "|";
            for (size_t i = 0; i < b.m_capacity; i++) {
                const Tracked *t = reinterpret_cast<const Tracked *>(&b.m_data[i]);
                char c = 'r';
                if (t->magic == T_MAGIC) { auto it = t_reg.find(t->serial); if (it != t_reg.end()) c = it->second.st == T_LIVE ? 'L' : it->second.st == T_MOVED ? 'm' : 'd'; }
                k += c;
            }
        }
        return k;
    }

    // Replays `h` then applies `o` with every oracle on; returns the canonical key of the reached state ("" if o is absent).
    std::string step(const std::vector<Op> &h, const Op *o, Model &m_out) {
        g_label = 1;
        if (cfg.tracked) t_reset();
        Model m;
        std::string k;
        {
            std::unique_ptr<RB> b(construct(m));
            for (auto &p : h) apply(*b, m, p, false);
            if (o) apply(*b, m, *o, true);
            check_all(*b, m);
            k = key(*b);
        }
        if (cfg.tracked) {
            auto left = t_live_values();
            if (!left.empty()) { std::string a; for (int v : left) a += std::to_string(v) + " "; bad("lifetime:abandoned", "after the buffer was destroyed these values are still held by undestroyed element objects: {" + a + "}"); }
        }
        m_out = m;
        return k;
    }
};

// counters live in shared memory so that they survive a crash of the exploring process
struct Stats { uint64_t &states = shm->states, &transitions = shm->transitions, &evals = shm->evaluations, &nontrivial = shm->nontrivial; };

template<typename T, bool OW> void bfs(bool tracked, int maxcap, std::set<std::string> &seen, Stats &st) {
    std::vector<Op> alphabet;
    for (int k : {PB, PF, EB, EF, OB, OF, AB, AF, XB, XF}) alphabet.push_back(Op{k, 0});
    for (int n = 1; n <= maxcap; n++) alphabet.push_back(Op{RS, n});
    for (int k : {CC, MV, SA}) alphabet.push_back(Op{k, 0});
    for (int n = 1; n <= std::min(maxcap, 3); n++) { alphabet.push_back(Op{CA, n}); alphabet.push_back(Op{MA, n}); }
    for (int cap = 1; cap <= maxcap; cap++) for (int init = 0; init <= std::min(cap, 3); init++) {
        Sys<T, OW> sys; sys.cfg = Config{OW, cap, init, tracked, std::is_same_v<T, Boxed> ? TY_BOXED : tracked ? TY_TRACKED : TY_INT};
        std::deque<std::vector<Op>> frontier;
        Model m;
        mark(hist_str(sys.cfg, {}));
        std::string k0 = sys.step({}, nullptr, m);
        st.evals++;
        if (seen.insert(k0).second) { st.states++; frontier.push_back({}); }
        while (!frontier.empty()) {
            if (deadline_passed()) { shm->exhaustive = 0; return; }
            std::vector<Op> h = std::move(frontier.front()); frontier.pop_front();
            Model base;
            { // model state of h (cheap: replay on the model only through step without op)
                mark(hist_str(sys.cfg, h));
                sys.step(h, nullptr, base);
            }
            for (auto &o : alphabet) {
                if (!precondition(base, OW, o)) continue;
                mark(hist_str(sys.cfg, h, &o));
                Model after;
                std::string k = sys.step(h, &o, after);
                st.transitions++; st.evals++;
                if (base.d.size() > 0 || after.d.size() > 0) st.nontrivial++;
                if (seen.insert(k).second) {
                    st.states++;
                    auto h2 = h; h2.push_back(o); frontier.push_back(std::move(h2));
                    if (st.states % 97 == 3) sample(hist_str(sys.cfg, h, &o) + "  => state " + k);
                } else {
                    // a transition into a known state: one more operation of every kind on THIS history (not merged), so that anything the operation left behind that the key does not show surfaces
                    auto h2 = h; h2.push_back(o);
                    for (auto &o2 : alphabet) { if (!precondition(after, OW, o2)) continue; mark(hist_str(sys.cfg, h2, &o2)); Model m3; sys.step(h2, &o2, m3); st.transitions++; st.evals++; }
                }
            }
        }
    }
}

// all histories to a fixed depth without deduplication (the state abstraction is not trusted alone)
template<typename T, bool OW> void enumerate(bool tracked, int cap, int depth, Stats &st) {
    std::vector<Op> alphabet;
    for (int k : {PB, PF, OB, OF, AB, AF}) alphabet.push_back(Op{k, 0});
    for (int n : {1, cap - 1, cap + 1, cap + 2}) if (n >= 1) alphabet.push_back(Op{RS, n});
    alphabet.push_back(Op{CA, 2}); alphabet.push_back(Op{MV, 0});
    Sys<T, OW> sys; sys.cfg = Config{OW, cap, 0, tracked, std::is_same_v<T, Boxed> ? TY_BOXED : tracked ? TY_TRACKED : TY_INT};
    std::vector<std::vector<Op>> level{{}};
    for (int d = 0; d < depth; d++) {
        std::vector<std::vector<Op>> next;
        for (auto &h : level) {
            if (deadline_passed()) { shm->exhaustive = 0; return; }
            Model base; mark(hist_str(sys.cfg, h)); sys.step(h, nullptr, base);
            for (auto &o : alphabet) {
                if (!precondition(base, OW, o)) continue;
                mark(hist_str(sys.cfg, h, &o));
                Model after; sys.step(h, &o, after);
                st.transitions++; st.evals++; st.nontrivial++;
                if (d + 1 < depth) { auto h2 = h; h2.push_back(o); next.push_back(std::move(h2)); }
            }
        }
        level = std::move(next);
    }
}

// Large capacities: whatever the implementation does differently above some size (inline storage, another growth policy, index arithmetic that only wraps when the
// capacity is large) is on both sides of it here.  States are built directly - capacity c, head moved to h, s elements - and every operation, then every second
// operation, is applied to each, with all oracles on.
template<typename T, bool OW> void wide(bool tracked, const std::vector<int> &caps, Stats &st) {
    for (int cap : caps) {
        Sys<T, OW> sys; sys.cfg = Config{OW, cap, 0, tracked, std::is_same_v<T, Boxed> ? TY_BOXED : tracked ? TY_TRACKED : TY_INT};
        std::set<int> heads{0, 1, cap / 2, cap - 1}, sizes{0, 1, cap / 2, cap - 1, cap};
        for (int hd : heads) for (int sz : sizes) {
            if (deadline_passed()) { shm->exhaustive = 0; return; }
            std::vector<Op> h;
            for (int i = 0; i < hd; i++) { h.push_back(Op{PB, 0}); h.push_back(Op{OF, 0}); }
            for (int i = 0; i < sz; i++) h.push_back(Op{PB, 0});
            std::vector<Op> alphabet;
            for (int k : {PB, PF, EB, EF, OB, OF, AB, AF, XB, XF, CC, MV, SA}) alphabet.push_back(Op{k, 0});
            std::set<int> targets{1, sz - 1, sz, sz + 1, cap - 1, cap + 1, 2 * cap};
            for (int n : targets) if (n >= 1) alphabet.push_back(Op{RS, n});
            alphabet.push_back(Op{CA, 2}); alphabet.push_back(Op{MA, 2});
            Model base; mark(hist_str(sys.cfg, h)); sys.step(h, nullptr, base); st.evals++; st.states++;
            for (auto &o : alphabet) {
                if (!precondition(base, OW, o)) continue;
                mark(hist_str(sys.cfg, h, &o));
                Model after; sys.step(h, &o, after);
                st.transitions++; st.evals++; st.nontrivial++;
                auto h2 = h; h2.push_back(o);
                for (auto &o2 : alphabet) {
                    if (!thorough() && o2.kind != PB && o2.kind != OF && o2.kind != OB && o2.kind != PF && o2.kind != RS) continue;
                    if (!precondition(after, OW, o2)) continue;
                    mark(hist_str(sys.cfg, h2, &o2)); Model m3; sys.step(h2, &o2, m3); st.transitions++; st.evals++; st.nontrivial++;
                }
            }
        }
    }
}

// comparison reports what a bounded deque reports: element-wise ==, whatever the bytes look like (negative zero equals zero, a NaN equals nothing, an element type may ignore a field)
struct Keyed { int key; int note; bool operator==(const Keyed &o) const { return key == o.key; } };
template<bool OWA, bool OWB> void equality_semantics() {
    auto run = [&](auto tag, const char *tn, auto va, auto vb, bool want_equal, int prepops) {
        using T = decltype(tag);
        std::string hist = fmt("equality T=%s owa=%d owb=%d case=%s prepops=%d", tn, (int)OWA, (int)OWB, want_equal ? "equal" : "different", prepops);
        mark(hist); shm->evaluations++; shm->transitions++; shm->nontrivial++;
        RingBuffer<T, OWA> a(4); RingBuffer<T, OWB> b(4);
        for (int i = 0; i < prepops; i++) { a.push_back(va); (void)a.pop_front(); }      // moves the head of a: contiguous and wrapped layouts
        a.push_back(va); a.push_back(va); b.push_back(vb); b.push_back(vb);
        std::deque<T> da{va, va}, db{vb, vb};
        bool model = std::equal(da.begin(), da.end(), db.begin(), db.end());
        if (model != want_equal) violation("harness:equality", "the deque model disagrees with the expectation", hist);
        if ((a == b) != model) violation("model:equality", fmt("operator== on RingBuffer<%s> says %s where element-wise == says %s (head of the left buffer moved %d times)", tn, (a == b) ? "equal" : "different", model ? "equal" : "different", prepops), hist);
    };
    for (int pre : {0, 1, 3}) {
        run(double{}, "double", 0.0, -0.0, true, pre);
        run(double{}, "double", std::numeric_limits<double>::quiet_NaN(), std::numeric_limits<double>::quiet_NaN(), false, pre);
        run(float{}, "float", -0.0f, 0.0f, true, pre);
        run(Keyed{}, "keyed-struct", Keyed{1, 10}, Keyed{1, 20}, true, pre);
        run(Keyed{}, "keyed-struct", Keyed{1, 10}, Keyed{2, 10}, false, pre);
    }
}

void explore() {
    bool tracked = opt.property == "C09";
    if (!tracked) { equality_semantics<false, false>(); equality_semantics<true, false>(); equality_semantics<true, true>(); }
    int maxcap = thorough() ? 8 : 6;
    std::set<std::string> seen; Stats st;
    if (tracked) { bfs<Tracked, false>(true, maxcap, seen, st); bfs<Tracked, true>(true, maxcap, seen, st); }
    else {
        bfs<int, false>(false, maxcap, seen, st); bfs<int, true>(false, maxcap, seen, st);
        std::set<std::string> seen2;      // the same search with an element type that owns heap memory
        bfs<Boxed, false>(false, std::min(maxcap, 5), seen2, st); bfs<Boxed, true>(false, std::min(maxcap, 5), seen2, st);
    }
    uint64_t bfs_states = st.states, bfs_trans = st.transitions;
    {
        std::vector<int> caps; for (int c = maxcap + 1; c <= (thorough() ? 70 : 66); c++) if (thorough() || c <= 10 || (c >= 15 && c <= 18) || (c >= 31 && c <= 34) || c >= 63) caps.push_back(c);
        if (tracked) { wide<Tracked, false>(true, caps, st); wide<Tracked, true>(true, caps, st); }
        else { wide<int, false>(false, caps, st); wide<int, true>(false, caps, st); }
        sx::detail(fmt("large capacities (%d..%d%s): every state (capacity, head at 0 / 1 / middle / last slot, size 0 / 1 / half / capacity-1 / capacity) with every operation and every second operation%s; resize targets 1, size-1, size, size+1, capacity-1, capacity+1, 2 x capacity",
                       caps.front(), caps.back(), thorough() ? "" : ": 7..10, 15..18, 31..34, 63..66", thorough() ? "" : " (second: push, pop, resize)"));
    }
    int depth = thorough() ? 6 : 4;
    for (int cap : {2, 3}) {
        if (tracked) { enumerate<Tracked, false>(true, cap, depth, st); enumerate<Tracked, true>(true, cap, depth, st); }
        else { enumerate<int, false>(false, cap, depth, st); enumerate<int, true>(false, cap, depth, st); }
    }
    shm->validated = st.transitions;
    sx::detail(fmt("breadth-first search to fixpoint: %llu states, %llu transitions (capacities 1..%d, both overwrite modes, initializer-list sizes 0..3); plus every history to depth %d for capacities 2 and 3 without deduplication: %llu more transitions",
               (unsigned long long)bfs_states, (unsigned long long)bfs_trans, maxcap, depth, (unsigned long long)(st.transitions - bfs_trans)));
}

void replay(const std::string &hist) {
    if (hist.compare(0, 9, "equality ") == 0) { equality_semantics<false, false>(); equality_semantics<true, false>(); equality_semantics<true, true>(); return; }
    Config c; std::vector<Op> h;
    if (!parse_hist(hist, c, h)) { violation("replay:parse", "cannot parse history " + hist); return; }
    auto go = [&](auto sys) {
        sys.cfg = c;
        Model m;
        if (h.empty()) { sys.step({}, nullptr, m); return; }
        Op last = h.back(); std::vector<Op> pre(h.begin(), h.end() - 1);
        sys.step(pre, &last, m);
    };
    if (c.tracked) { if (c.ow) go(Sys<Tracked, true>{}); else go(Sys<Tracked, false>{}); }
    else if (c.type == TY_BOXED) { if (c.ow) go(Sys<Boxed, true>{}); else go(Sys<Boxed, false>{}); }
    else { if (c.ow) go(Sys<int, true>{}); else go(Sys<int, false>{}); }
}
}  // namespace

int main(int argc, char **argv) {
    Harness h;
    h.name = "ringbuffer";
    h.rule = "explicit-state search: a state is an operation history replayed on a fresh real RingBuffer, keyed by the implementation's own fields (overwrite, capacity, head position, size; for the lifetime check also the status of "
             "every physical slot); breadth-first to fixpoint with every operation of the alphabet (push/emplace/pop at both ends, pushes whose argument is an element of the buffer itself, resize(1..N), copy-construct, move round trip, self-assignment, copy-/move-assignment from a wrapped full "
             "buffer) applied in every state; after every transition the whole public API is compared with a capacity-bounded std::deque; non-trivial = transition on a non-empty buffer";
    h.assumptions = {"element values do not influence RingBuffer's control flow (data independence: RingBuffer never inspects values except through operator==)", "preconditions of the property respected (no pop on empty, no push on a full non-overwriting buffer, capacity >= 1)",
                     "capacities and resize targets up to the stated bound"};
    h.explore = explore;
    h.replay = replay;
    return run_main(argc, argv, h);
}
