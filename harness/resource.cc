// E1 harness for tulz::rwp::Resource and its guards: properties C01 C02 C03 C12 (and the Resource part of C15).
#include <tulz/threading/rwp/Resource.h>
#include <tulz/threading/rwp/ReadLock.h>
#include <tulz/threading/rwp/WriteLock.h>

#include <algorithm>
#include <memory>
#include <sstream>
#include <string>
#include <thread>
#include <vector>

#include "../engine/explore.h"

using tulz::rwp::Resource;

namespace {
enum { EV_ISSUE = 100, EV_ACQ = 101, EV_REL = 102, EV_DONE = 103, EV_BARRIER = 104 };
enum { CELL_READERS = 0, CELL_WRITERS = 1, CELL_BARRIER = 2, CELL_SEQ = 3, CELL_EXPECT = 4 };

Resource *g_res;   // the object under test of the execution in progress (for the state fingerprint)

// The harness reads the private state of the Resource for the state fingerprint.  A refactoring of tulz may rename these members: the layout is probed at compile time, and
// when it is not the one known here the fingerprint falls back to nothing (it is then only used for counting) and the stateful programs, which need a complete state, are left out.
template<typename R> constexpr bool known_layout_v = requires(R &r) {
    (uint64_t)r.m_activeOp; (uint64_t)r.m_activeCount; (uint64_t)r.m_idCounter; (uint64_t)r.m_upperUnlockBound; r.m_queue.begin();
    (uint64_t)r.m_queue.front().type; (uint64_t)r.m_queue.front().upperBound;
};
constexpr bool kKnownLayout = known_layout_v<Resource>;

template<typename R> uint64_t resource_state_of(R *res) {
    uint64_t h = 9;
    if constexpr (known_layout_v<R>) {
        h = vs_mix(h, (uint64_t)res->m_activeOp);
        h = vs_mix(h, (uint64_t)res->m_activeCount);
        h = vs_mix(h, (uint64_t)res->m_idCounter);
        h = vs_mix(h, (uint64_t)res->m_upperUnlockBound);
        for (auto &op : res->m_queue) h = vs_mix(h, ((uint64_t)op.type << 32) ^ (uint64_t)op.upperBound);
    }
    return h;
}
template<typename R> long ticket_of_parking_thread(R *res) { if constexpr (known_layout_v<R>) return (long)res->m_idCounter; else return 0; }
uint64_t resource_state() { return g_res ? resource_state_of(g_res) : 0; }

struct Spec {
    std::vector<std::string> scripts;   // one per thread; characters R / W = one critical section each
    bool guards = false;                // use ReadLock/WriteLock instead of the raw calls
    bool check_excl = false;            // C01 oracle: fail at once on an overlap
    bool check_idle = true;             // C02 oracle: the idle check after all threads are joined
    bool check_fifo = false;            // C03 oracle over the event log
    bool check_share = false;           // C12 oracle: a reader without any overlapping write request never parks
    // arrival shaping: 'holder' first takes the lock, the requesters then queue up one after the other, then the holder releases
    char holder = 0;                    // 0, 'R' or 'W'
    bool ordered_arrival = false;
    std::vector<std::string> late;      // scripts of threads that are started after the ordered ones have queued up and arrive whenever the schedule lets them
    int rendezvous = 0;                 // C12(iii): number of readers that meet at a barrier inside the read section
    int spurious = 0;                   // spurious condition-variable wake-ups the scheduler may generate per execution (each costs 1 from the bound)
    bool single = false;                // a program too large to enumerate: only its default schedule is executed
    bool outer_read = false;            // the late threads hold a read lock on a SECOND, unrelated Resource while they run their scripts (state kept per thread instead of per Resource shows up here)
    bool audit = false;                 // stateful pass without cutting off (every schedule executed): must visit exactly the same number of states
    bool stateful = false;              // all schedules (no preemption bound), pruned at visited states; oracles kept online in cells
};

int pred_parked(void *arg) { return vs_thread_waiting((int)(long)arg); }
int pred_barrier(void *arg) { return vs_cell_get(CELL_BARRIER) >= (long)arg; }

// plain data that the lock is supposed to protect: written inside write sections, read inside read sections.  In the race pass (tsan flavour) a reader that shares
// the lock with a writer shows up as a data race on it.
int g_protected;
void touch_protected(char op) { if (op == 'W') g_protected++; else { volatile int v = g_protected; (void)v; } }

void enter(char op) {
    touch_protected(op);
    if (op == 'R') {
        long r = vs_cell_add(CELL_READERS, 1);
        (void)r;
        if (vs_cell_get(CELL_EXPECT) && vs_cell_get(CELL_WRITERS) > 0)
            vs_fail("exclusion violated: a reader acquired the lock while %ld writer(s) hold it", vs_cell_get(CELL_WRITERS));
    } else {
        long w = vs_cell_add(CELL_WRITERS, 1);
        if (vs_cell_get(CELL_EXPECT) && (w > 1 || vs_cell_get(CELL_READERS) > 0))
            vs_fail("exclusion violated: a writer acquired the lock while %ld reader(s) and %ld other writer(s) hold it", vs_cell_get(CELL_READERS), w - 1);
    }
}
void leave(char op) { vs_cell_add(op == 'R' ? CELL_READERS : CELL_WRITERS, -1); }

// one critical section; `inside` runs while the lock is held
template<typename F> void section(Resource &res, char op, bool guards, F &&inside) {
    int seq = (int)vs_cell_add(CELL_SEQ, 1);
    vs_event(EV_ISSUE, op, seq);
    if (guards) {
        if (op == 'R') {
            tulz::rwp::ReadLock lock{res};
            vs_event(EV_ACQ, op, seq); enter(op); inside(); leave(op); vs_event(EV_REL, op, seq);
        } else {
            tulz::rwp::WriteLock lock{res};
            vs_event(EV_ACQ, op, seq); enter(op); inside(); leave(op); vs_event(EV_REL, op, seq);
        }
    } else {
        if (op == 'R') res.lockRead(); else res.lockWrite();
        vs_event(EV_ACQ, op, seq); enter(op); inside(); leave(op); vs_event(EV_REL, op, seq);
        if (op == 'R') res.unlockRead(); else res.unlockWrite();
    }
    vs_event(EV_DONE, op, seq);
}

struct Req { int tid; char op; int seq; int issue = -1, park = -1, acq = -1, rel = -1, done = -1; };

std::vector<Req> requests() {
    int n; const vs_ev *ev = vs_log(&n);
    std::vector<Req> rq;
    auto find = [&](int seq) -> Req * { for (auto &r : rq) if (r.seq == seq) return &r; return nullptr; };
    std::vector<int> open_req(VS_MAXT, -1);     // per thread: seq of the request between ISSUE and ACQ
    for (int i = 0; i < n; i++) {
        const vs_ev &e = ev[i];
        if (e.kind == EV_ISSUE) { Req r; r.tid = e.tid; r.op = (char)e.a; r.seq = (int)e.b; r.issue = i; rq.push_back(r); open_req[e.tid] = r.seq; }
        else if (e.kind == EV_ACQ) { if (Req *r = find((int)e.b)) r->acq = i; open_req[e.tid] = -1; }
        else if (e.kind == EV_REL) { if (Req *r = find((int)e.b)) r->rel = i; }
        else if (e.kind == EV_DONE) { if (Req *r = find((int)e.b)) r->done = i; }
        else if (e.kind == VS_EV_PARK && open_req[e.tid] >= 0) { if (Req *r = find(open_req[e.tid])) if (r->park < 0) r->park = i; }
    }
    return rq;
}

void check_fifo() {
    auto rq = requests();
    for (auto &a : rq) for (auto &b : rq) {
        if (&a == &b || (a.op == 'R' && b.op == 'R')) continue;
        if (a.park >= 0 && a.park < b.issue && a.acq >= 0 && b.acq >= 0 && b.acq < a.acq)
            vs_fail("FIFO violated: request #%d (%c by t%d) was already waiting when request #%d (%c by t%d) was issued, yet #%d was granted first",
                    a.seq, a.op, a.tid, b.seq, b.op, b.tid, b.seq);
    }
}

void check_share() {
    auto rq = requests();
    int n; vs_log(&n);
    for (auto &r : rq) {
        if (r.op != 'R' || r.park < 0) continue;
        int hi = r.acq >= 0 ? r.acq : n;
        bool writer_near = false;
        for (auto &w : rq) if (w.op == 'W') {
            int wend = w.done >= 0 ? w.done : n;
            if (w.issue <= hi && wend >= r.issue) writer_near = true;
        }
        if (!writer_near)
            vs_fail("reader sharing violated: read request #%d (t%d) had to wait although no write request was active or waiting during the call", r.seq, r.tid);
    }
}

// ------------------------------------------------------------------ stateful pass: all schedules, oracles as functions of the state
// The stateless passes judge a schedule by its event log.  When executions are cut off at states that were reached before, an oracle may only depend on the state; the
// FIFO and sharing oracles are therefore kept online in scheduler cells (which are part of the state fingerprint):
//   per thread t: OUT = kind of its request that is issued but not yet granted, GEN = how many requests it has issued, WAIT = it has parked inside lock() for that request,
//   SNAP = for every other thread the generation of the request that was already waiting when t issued its own, TICKET = the ticket number the waiter holds in its local
//   variable `id` (read from the Resource at the moment it parks, while it still owns the mutex) - the only local of tulz code that outlives a scheduling point.
enum { CELL_WACTIVE = 5, CELL_WDONE = 6, CELL_T0 = 8, CELLS_PER_T = 6, C_OUT = 0, C_GEN = 1, C_WAIT = 2, C_SNAP = 3, C_TICKET = 4, C_WSEEN = 5, MAXST = 9 };
inline int tc(int t, int which) { return CELL_T0 + t * CELLS_PER_T + which; }
bool g_st_share;

void st_park(int tid) {
    if (tid < 0 || tid >= MAXST || !g_res) return;
    if (tid == 0) vs_fail("idle check: the main thread had to wait although every lock had been released");      // the main thread only locks first (as the holder) or last (idle check)
    long out = vs_cell_get(tc(tid, C_OUT));
    if (!out || vs_cell_get(tc(tid, C_WAIT))) return;
    vs_cell_set(tc(tid, C_WAIT), 1);
    vs_cell_set(tc(tid, C_TICKET), ticket_of_parking_thread(g_res));      // id + 1
    if (g_st_share && out == 'R' && vs_cell_get(CELL_WACTIVE) == 0 && vs_cell_get(CELL_WDONE) == vs_cell_get(tc(tid, C_WSEEN)))
        vs_fail("reader sharing violated: the read request of t%d has to wait although no write request is active or waiting (and none was since the request was issued)", tid);
}

void st_section(Resource &res, char op, const Spec &s, void (*inside)(const Spec &) = nullptr) {
    int me = vs_self();
    if (me < 0 || me >= MAXST) vs_fail("harness error: too many threads for the stateful pass");
    // issue
    vs_cell_add(tc(me, C_GEN), 1); vs_cell_set(tc(me, C_OUT), op); vs_cell_set(tc(me, C_WAIT), 0);
    long snap = 0;
    for (int a = 0; a < MAXST; a++) if (a != me && vs_cell_get(tc(a, C_WAIT))) snap |= (vs_cell_get(tc(a, C_GEN)) & 7) << (3 * a);
    vs_cell_set(tc(me, C_SNAP), snap);
    if (op == 'W') vs_cell_add(CELL_WACTIVE, 1); else vs_cell_set(tc(me, C_WSEEN), vs_cell_get(CELL_WDONE));
    vs_event(EV_ISSUE, op, me);
    auto granted = [&] {
        vs_event(EV_ACQ, op, me);
        if (s.check_fifo) for (int a = 0; a < MAXST; a++) {
            long g = (snap >> (3 * a)) & 7;
            if (g && vs_cell_get(tc(a, C_WAIT)) && (vs_cell_get(tc(a, C_GEN)) & 7) == g && !(vs_cell_get(tc(a, C_OUT)) == 'R' && op == 'R'))
                vs_fail("FIFO violated: the %c request of t%d was already waiting when t%d issued its %c request, yet t%d was granted first", (char)vs_cell_get(tc(a, C_OUT)), a, me, op, me);
        }
        vs_cell_set(tc(me, C_OUT), 0); vs_cell_set(tc(me, C_WAIT), 0); vs_cell_set(tc(me, C_TICKET), 0); vs_cell_set(tc(me, C_SNAP), 0);
        enter(op); if (inside) inside(s); else vs_point(1); leave(op);
        vs_event(EV_REL, op, me);
    };
    if (s.guards) {
        if (op == 'R') { tulz::rwp::ReadLock lock{res}; granted(); } else { tulz::rwp::WriteLock lock{res}; granted(); }
    } else {
        if (op == 'R') res.lockRead(); else res.lockWrite();
        granted();
        if (op == 'R') res.unlockRead(); else res.unlockWrite();
    }
    if (op == 'W') { vs_cell_add(CELL_WACTIVE, -1); vs_cell_add(CELL_WDONE, 1); }
    vs_event(EV_DONE, op, me);
}

int g_nb;   // number of 'B' operations (read sections with a rendezvous inside) in the program of the execution in progress
void st_op(Resource &res, char op, const Spec &s) {
    if (op == 'B') st_section(res, 'R', s, [](const Spec &) { vs_cell_add(CELL_BARRIER, 1); vs_event(EV_BARRIER, 0, 0); vs_block_until(pred_barrier, (void *)(long)g_nb); });
    else st_section(res, op, s);
}
void plain_op(Resource &res, char op, const Spec &s) {
    if (op == 'B') section(res, 'R', s.guards, [] { vs_cell_add(CELL_BARRIER, 1); vs_event(EV_BARRIER, 0, 0); vs_block_until(pred_barrier, (void *)(long)g_nb); });
    else section(res, op, s.guards, [] { vs_point(1); });
}
int count_b(const Spec &s) { int n = 0; for (auto &v : s.scripts) for (char c : v) n += c == 'B'; for (auto &v : s.late) for (char c : v) n += c == 'B'; return n; }

void run_stateful(const Spec &s) {
    g_nb = count_b(s);
    auto res = std::make_unique<Resource>();
    g_res = res.get(); g_st_share = s.check_share;
    vs_cell_set(CELL_EXPECT, s.check_excl ? 1 : 0);
    std::vector<std::thread> th;
    int nreq = (int)s.scripts.size();
    if (s.rendezvous) {
        int k = s.rendezvous;
        res->lockWrite(); enter('W'); vs_cell_add(CELL_WACTIVE, 1);
        for (int i = 0; i < k; i++) {
            th.emplace_back([&res, &s] { st_section(*res, 'R', s, [](const Spec &sp) { vs_cell_add(CELL_BARRIER, 1); vs_event(EV_BARRIER, 0, 0); vs_block_until(pred_barrier, (void *)(long)sp.rendezvous); }); });
            vs_block_until(pred_parked, (void *)(long)(i + 1));
        }
        for (size_t i = 0; i < s.late.size(); i++) th.emplace_back([&res, &s, i] { for (char op : s.late[i]) st_op(*res, op, s); });
        if (!s.late.empty()) vs_point(2);
        leave('W'); res->unlockWrite(); vs_cell_add(CELL_WACTIVE, -1); vs_cell_add(CELL_WDONE, 1);
    } else if (s.holder) {
        // the holder's own section is written out here: it starts the requesters while it holds
        if (s.holder == 'R') res->lockRead(); else res->lockWrite();
        enter(s.holder);
        if (s.holder == 'W') vs_cell_add(CELL_WACTIVE, 1);
        for (int i = 0; i < nreq; i++) {
            th.emplace_back([&res, &s, i] { for (char op : s.scripts[i]) st_op(*res, op, s); });
            if (s.ordered_arrival) vs_block_until(pred_parked, (void *)(long)(i + 1));
        }
        for (size_t i = 0; i < s.late.size(); i++) th.emplace_back([&res, &s, i] { for (char op : s.late[i]) st_op(*res, op, s); });
        vs_point(2);
        leave(s.holder);
        if (s.holder == 'R') res->unlockRead(); else res->unlockWrite();
        if (s.holder == 'W') { vs_cell_add(CELL_WACTIVE, -1); vs_cell_add(CELL_WDONE, 1); }
    } else {
        for (int i = 0; i < nreq; i++) th.emplace_back([&res, &s, i] { for (char op : s.scripts[i]) st_op(*res, op, s); });
    }
    for (auto &t : th) t.join();
    if (s.check_idle) {
        // the Resource must be idle again: each of these would park forever otherwise (nobody is left to wake us)
        res->lockWrite(); res->unlockWrite();
        res->lockRead(); res->lockRead(); res->unlockRead(); res->unlockRead();
    }
    g_res = nullptr;
}

void run(const Spec &s) {
    g_nb = count_b(s);
    auto other = std::make_unique<Resource>();
    auto res = std::make_unique<Resource>();
    g_res = res.get();
    vs_cell_set(CELL_EXPECT, s.check_excl ? 1 : 0);
    std::vector<std::thread> th;
    int nreq = (int)s.scripts.size();

    if (s.rendezvous) {
        // a writer (this thread) holds, k readers queue up behind it, then it releases and the readers must meet inside
        int k = s.rendezvous;
        section(*res, 'W', s.guards, [&] {
            for (int i = 0; i < k; i++) {
                th.emplace_back([&res, &s, k] {
                    section(*res, 'R', s.guards, [&] {
                        vs_cell_add(CELL_BARRIER, 1);
                        vs_event(EV_BARRIER, 0, 0);
                        vs_block_until(pred_barrier, (void *)(long)k);
                    });
                });
                vs_block_until(pred_parked, (void *)(long)(i + 1));
            }
            // late arrivals: started while the writer still holds, they issue their request whenever the schedule lets them - while the batch is still queued,
            // while its members are waking up one after the other, or after they are all inside; they are not part of the rendezvous
            for (size_t i = 0; i < s.late.size(); i++)
                th.emplace_back([&res, &other, &s, i] { if (s.outer_read) other->lockRead(); for (char op : s.late[i]) plain_op(*res, op, s); if (s.outer_read) other->unlockRead(); });
            if (!s.late.empty()) vs_point(2);
        });
    } else if (s.holder) {
        section(*res, s.holder, s.guards, [&] {
            for (int i = 0; i < nreq; i++) {
                th.emplace_back([&res, &s, i] { for (char op : s.scripts[i]) plain_op(*res, op, s); });
                if (s.ordered_arrival) vs_block_until(pred_parked, (void *)(long)(i + 1));
            }
            for (size_t i = 0; i < s.late.size(); i++)
                th.emplace_back([&res, &other, &s, i] { if (s.outer_read) other->lockRead(); for (char op : s.late[i]) plain_op(*res, op, s); if (s.outer_read) other->unlockRead(); });
            vs_point(2);
        });
    } else {
        for (int i = 0; i < nreq; i++)
            th.emplace_back([&res, &s, i] { for (char op : s.scripts[i]) plain_op(*res, op, s); });
    }
    for (auto &t : th) t.join();

    if (s.check_fifo) check_fifo();
    if (s.check_share) check_share();
    if (s.check_idle) {
        // the Resource must be idle again: each of these would park forever otherwise (nobody is left to wake us)
        res->lockWrite(); res->unlockWrite();
        res->lockRead(); res->lockRead(); res->unlockRead(); res->unlockRead();
        int n; const vs_ev *ev = vs_log(&n);
        for (int i = 0; i < n; i++) if (ev[i].kind == VS_EV_PARK && ev[i].tid == 0 && !s.holder && !s.rendezvous)
            vs_fail("idle check: the main thread had to wait although every lock had been released");
    }
    g_res = nullptr;
}

std::string join(const std::vector<std::string> &v) { std::string s; for (auto &x : v) { if (!s.empty()) s += ","; s += x; } return s; }

void add(VSuite &suite, Spec s, int bound, const std::string &flavour, bool unlock_points = false) {
    if (s.stateful && !kKnownLayout) return;      // the stateful pass needs the complete state of the Resource (see known_layout_v)
    VProgram p;
    std::string nm = s.rendezvous ? "rendezvous" + std::to_string(s.rendezvous) : (s.holder ? std::string("hold") + s.holder + (s.ordered_arrival ? "-ordered-" : "-") : std::string()) + join(s.scripts);
    if (!s.late.empty()) nm += "+late-" + join(s.late);
    p.name = nm + (s.outer_read ? "+outer" : "") + (s.guards ? "-guards" : "") + (s.spurious ? "+spurious" : "") + (s.stateful ? "@all" : "");
    p.stateful = s.stateful; if (s.stateful) p.park_cb = st_park;
    p.single_schedule = s.single; if (s.single) { p.name += "@once"; p.describe += "; ONE schedule only (the default one): the program is far too large to enumerate and is run as a plain scenario"; }
    p.stateful_audit = s.audit; if (s.audit) p.name += "-audit";
    p.spurious = s.spurious;
    p.describe = s.rendezvous ? "main holds the write lock while " + std::to_string(s.rendezvous) + " readers queue up one after the other; after it unlocks the readers wait for each other inside the read section" +
                                (s.late.empty() ? std::string() : "; late threads [" + join(s.late) + "] are started while main still holds and issue their requests at any time")
                 : std::string(s.holder ? std::string("main holds ") + s.holder + " while the threads " + (s.ordered_arrival ? "queue up in order" : "start") + "; " : "") +
                   (s.late.empty() ? std::string() : "late threads [" + join(s.late) + "] start while the holder still holds and arrive at any time; ") +
                   "threads run the scripts [" + join(s.scripts) + "] (R/W = one read/write critical section with a scheduling point inside)" + (s.guards ? " using ReadLock/WriteLock guards" : " using raw lock*/unlock* calls") +
                   (s.outer_read ? "; the late threads hold a read lock on a second, unrelated Resource meanwhile" : "") + (s.spurious ? "; one spurious wake-up of a thread waiting on the condition variable may happen anywhere (costs 1 like a preemption)" : "");
    p.bound = bound;
    p.unlock_points = unlock_points;
    p.body = [s] { if (s.stateful) run_stateful(s); else run(s); };
    p.state_cb = flavour == "tsan" ? nullptr : resource_state;
    if (s.stateful) p.describe += "; ALL schedules without a preemption bound: the depth-first search is cut off at every state (thread positions, scheduler objects, oracle cells, the Resource's private fields, the ticket numbers of the waiters) that was reached before";
    suite.programs.push_back(std::move(p));
}

// all sequences of length n over {R,W}
std::vector<std::vector<std::string>> sequences(int n, const std::vector<std::string> &alphabet) {
    std::vector<std::vector<std::string>> out{{}};
    for (int i = 0; i < n; i++) { std::vector<std::vector<std::string>> nx; for (auto &v : out) for (auto &a : alphabet) { auto w = v; w.push_back(a); nx.push_back(w); } out = nx; }
    return out;
}
std::vector<std::vector<std::string>> multisets(int n, const std::vector<std::string> &alphabet) {
    std::vector<std::vector<std::string>> out;
    for (auto &v : sequences(n, alphabet)) { bool sorted = true; for (size_t i = 1; i < v.size(); i++) if (std::find(alphabet.begin(), alphabet.end(), v[i - 1]) > std::find(alphabet.begin(), alphabet.end(), v[i])) sorted = false; if (sorted) out.push_back(v); }
    return out;
}

std::string ev_name(const vs_ev &e) {
    char b[96];
    switch (e.kind) {
    case EV_ISSUE: snprintf(b, sizeof b, "issues %s request #%ld", e.a == 'R' ? "read" : "write", (long)e.b); return b;
    case EV_ACQ: snprintf(b, sizeof b, "HOLDS %s lock (request #%ld)", e.a == 'R' ? "read" : "write", (long)e.b); return b;
    case EV_REL: snprintf(b, sizeof b, "about to release %s lock (request #%ld)", e.a == 'R' ? "read" : "write", (long)e.b); return b;
    case EV_DONE: snprintf(b, sizeof b, "released %s lock (request #%ld)", e.a == 'R' ? "read" : "write", (long)e.b); return b;
    case EV_BARRIER: return "arrives at the reader rendezvous";
    }
    return "";
}

bool provider(const std::string &prop, const std::string &tier, const std::string &flavour, VSuite &suite) {
    bool mine = prop == "C01" || prop == "C02" || prop == "C03" || prop == "C12" || prop == "C15";
    if (!mine) return false;
    bool thorough = tier == "thorough";
    suite.event_name = ev_name;
    Spec base;
    base.check_excl = prop == "C01";
    base.check_idle = prop == "C02";
    base.check_fifo = prop == "C03";
    base.check_share = prop == "C12";

    if (prop == "C15") {
        // race pass: the same bodies under ThreadSanitizer; oracles off, every report counts
        int b = thorough ? 3 : 2;
        for (auto &v : multisets(3, {"R", "W"})) { Spec s = base; s.scripts = v; add(suite, s, b, flavour); }
        { Spec s = base; s.scripts = {"RW", "WR"}; s.guards = true; add(suite, s, b, flavour); }
        { Spec s = base; s.rendezvous = 2; add(suite, s, b, flavour); }
        suite.rule = "every schedule with at most c preemptions (c = 0..bound) of the Resource, ThreadPool and ConcurrentSubjectRouter programs, executed under ThreadSanitizer with an uninstrumented scheduler: "
                     "the happens-before detector judges every enumerated schedule; any report is a violation; non-trivial = some thread really blocked";
        suite.assumptions = {"ThreadSanitizer's bounded access history per memory location", "modelled mutexes are announced to ThreadSanitizer with __tsan_acquire/__tsan_release; scheduler hand-offs add no happens-before edges",
                             "intended use as the property states it: one owner thread for ThreadPool, callbacks that do not call the router", "bounds as listed per program"};
        suite.relevant = [](int o, const std::string &, const std::string &) { return o == VS_OUT_RACE; };
        return true;
    }

    suite.rule = "every schedule (choice vector at the scheduling points lock / cond-wait / re-acquire / notify / thread create+exit+join / explicit points) with at most c preemptions, "
                 "for each listed program and c = 0..bound; all schedules are distinct by construction; non-trivial = some thread really blocked (on the internal mutex or the condition variable)";
    suite.assumptions = {"sequential consistency at synchronisation-step granularity (data-race freedom is checked separately by C15 on the same programs)",
                         "spurious condition-variable wake-ups are generated only in the programs marked +spurious (one per execution, costing 1 deviation)", "bounded: programs and preemption bounds as listed per program"};
    if (prop == "C01") suite.relevant = [](int o, const std::string &, const std::string &) { return o == VS_OUT_ORACLE || o == VS_OUT_CRASH; };
    if (prop == "C02") suite.relevant = [](int o, const std::string &, const std::string &) { return o == VS_OUT_DEADLOCK || o == VS_OUT_ORACLE; };
    if (prop == "C03") suite.relevant = [](int o, const std::string &, const std::string &) { return o == VS_OUT_ORACLE; };
    if (prop == "C12") suite.relevant = [](int o, const std::string &m, const std::string &) { return o == VS_OUT_ORACLE || (o == VS_OUT_DEADLOCK && m.find("harness-wait") != std::string::npos); };

    if (prop == "C12") {
        suite.rule += "; programs marked @all: every schedule without a preemption bound (depth-first, cut off at states reached before); programs marked @once (20/40/60 readers) are far too large to enumerate: "
                      "their default schedule is executed once, as a plain scenario, and they are not counted as exhaustively explored";
        for (int n = 2; n <= (thorough ? 6 : 5); n++) { Spec s = base; s.scripts.assign(n, "R"); add(suite, s, n <= 4 ? 3 : 2, flavour); }
        { Spec s = base; s.scripts = {"RR", "RR", "R"}; s.guards = true; add(suite, s, 2, flavour); }
        for (int k = 2; k <= (thorough ? 4 : 3); k++) { Spec s = base; s.rendezvous = k; add(suite, s, thorough ? 3 : 2, flavour); s.guards = true; if (k == 2) add(suite, s, 2, flavour); }
        for (auto &v : multisets(3, {"R", "W"})) if (v != std::vector<std::string>{"R", "R", "R"}) { Spec s = base; s.scripts = v; add(suite, s, 2, flavour); }
        { Spec s = base; s.scripts = {"R", "R", "W", "R"}; s.holder = 'W'; s.ordered_arrival = true; add(suite, s, 2, flavour); }
        // read requests that queue up consecutively behind ONE writer are granted together even when the writer becomes active between their arrivals
        // (B = read section whose holder waits inside for the other B's; no second writer exists that could legitimately separate them)
        for (bool st : {false, true}) {
            if (st && flavour != "plain" && flavour != "hooked") continue;
            { Spec s = base; s.holder = 'R'; s.ordered_arrival = true; s.scripts = {"W", "B"}; s.late = {"B"}; s.stateful = st; add(suite, s, 2, flavour); }
            { Spec s = base; s.holder = 'W'; s.ordered_arrival = true; s.scripts = {"B"}; s.late = {"B"}; s.stateful = st; add(suite, s, 2, flavour); }
            { Spec s = base; s.holder = 'R'; s.ordered_arrival = true; s.scripts = {"W", "B"}; s.late = {"B", "B"}; s.stateful = st; add(suite, s, thorough ? 2 : 1, flavour); }
            { Spec s = base; s.holder = 'R'; s.ordered_arrival = true; s.scripts = {"W", "B", "R"}; s.late = {"B"}; s.stateful = st; add(suite, s, thorough ? 2 : 1, flavour); }
            // two read batches separated by a writer: the readers of the first batch depend on each other, a reader of the second batch must not take a place among them
            { Spec s = base; s.holder = 'W'; s.ordered_arrival = true; s.scripts = {"B", "B", "W", "R"}; s.stateful = st; add(suite, s, 2, flavour); }
        }
        // "any number of readers": batches far beyond what can be enumerated, one schedule each (a limit hidden in the code - admit at most N at a time - shows up here)
        for (int k : {20, 40, 60}) { Spec s = base; s.rendezvous = k; s.single = true; add(suite, s, 0, flavour); }
        // a reader that arrives while the members of an admitted batch are still waking up must neither be held back nor disturb them
        { Spec s = base; s.rendezvous = 2; s.late = {"R"}; add(suite, s, 2, flavour); }
        { Spec s = base; s.rendezvous = 2; s.late = {"R", "R"}; add(suite, s, thorough ? 2 : 1, flavour); }
        { Spec s = base; s.rendezvous = 3; s.late = {"R"}; add(suite, s, thorough ? 2 : 1, flavour); }
        if (thorough) { Spec s = base; s.rendezvous = 2; s.late = {"RR"}; add(suite, s, 2, flavour); }
        if (flavour == "plain" || flavour == "hooked") {
            // stateful pass: ALL schedules
            for (int n = 2; n <= (thorough ? 6 : 5); n++) { Spec s = base; s.scripts.assign(n, "R"); s.stateful = true; add(suite, s, 0, flavour); }
            for (auto &v : multisets(3, {"R", "W"})) { Spec s = base; s.scripts = v; s.stateful = true; add(suite, s, 0, flavour); }
            for (auto &v : multisets(4, {"R", "W"})) { Spec s = base; s.scripts = v; s.stateful = true; add(suite, s, 0, flavour); }
            { Spec s = base; s.scripts = {"RR", "RR", "R"}; s.guards = true; s.stateful = true; add(suite, s, 0, flavour); }
            for (int k = 2; k <= (thorough ? 4 : 3); k++) for (const char *l : {"", "R", "W"}) { Spec s = base; s.rendezvous = k; if (*l) s.late = {l}; s.stateful = true; add(suite, s, 0, flavour); }
            { Spec s = base; s.rendezvous = 2; s.late = {"R", "R"}; s.stateful = true; add(suite, s, 0, flavour); }
            { Spec s = base; s.rendezvous = 2; s.late = {"R"}; s.stateful = true; s.spurious = 1; add(suite, s, 0, flavour); }
            { Spec s = base; s.scripts = {"R", "R", "W", "R"}; s.holder = 'W'; s.ordered_arrival = true; s.stateful = true; add(suite, s, 0, flavour); }
        }
        // spurious wake-ups: a reader of a queued batch (or the writer in front of it) may wake without a notification at any time
        { Spec s = base; s.rendezvous = 2; s.spurious = 1; add(suite, s, 2, flavour); }
        if (thorough) { Spec s = base; s.rendezvous = 3; s.spurious = 1; add(suite, s, 2, flavour); }
        { Spec s = base; s.scripts = {"R", "R", "W"}; s.spurious = 1; add(suite, s, 2, flavour); }
        return true;
    }

    suite.rule += "; programs marked @all: every schedule without a preemption bound (depth-first, cut off at states reached before, oracles kept online in the state)";
    // C01 / C02 / C03 share the lock-unlock program family
    // two threads, one section each: the bound is beyond the number of possible preemptions, i.e. ALL schedules are explored
    for (auto &v : sequences(2, {"R", "W"})) { Spec s = base; s.scripts = v; add(suite, s, 12, flavour); }
    for (auto &v : multisets(3, {"R", "W"})) { Spec s = base; s.scripts = v; add(suite, s, 3, flavour); }
    for (auto &v : multisets(4, {"R", "W"})) { Spec s = base; s.scripts = v; add(suite, s, thorough ? 3 : 2, flavour); }
    { Spec s = base; s.scripts = {"W", "R", "R", "W"}; add(suite, s, 2, flavour); }          // the batch-sibling pattern, in creation order
    for (auto &v : multisets(2, {"RR", "RW", "WR", "WW"})) { Spec s = base; s.scripts = v; add(suite, s, 3, flavour); }
    { Spec s = base; s.scripts = {"R", "W", "R"}; s.guards = true; add(suite, s, 3, flavour); }
    { Spec s = base; s.scripts = {"WR", "RW"}; s.guards = true; add(suite, s, 2, flavour); }
    // spurious wake-ups (POSIX allows them for every condition wait): one per execution, anywhere, in addition to the preemptions
    for (auto &v : multisets(3, {"R", "W"})) { Spec s = base; s.scripts = v; s.spurious = 1; add(suite, s, thorough ? 3 : 2, flavour); }
    { Spec s = base; s.scripts = {"W", "R", "R", "W"}; s.spurious = 1; add(suite, s, 2, flavour); }
    { Spec s = base; s.scripts = {"RW", "WR"}; s.spurious = 1; add(suite, s, 2, flavour); }
    // ---- stateful pass: ALL schedules of these programs (no preemption bound)
    if (flavour == "plain" || flavour == "hooked") {
        for (auto &v : multisets(3, {"R", "W"})) { Spec s = base; s.scripts = v; s.stateful = true; add(suite, s, 0, flavour); }
        if (getenv("VERIF_AUDIT")) for (auto &v : multisets(3, {"R", "W"})) { Spec s = base; s.scripts = v; s.stateful = true; s.audit = true; add(suite, s, 0, flavour); }
        for (auto &v : multisets(2, {"RR", "RW", "WR", "WW"})) { Spec s = base; s.scripts = v; s.stateful = true; add(suite, s, 0, flavour); }
        for (auto &v : multisets(4, {"R", "W"})) { Spec s = base; s.scripts = v; s.stateful = true; add(suite, s, 0, flavour); }
        { Spec s = base; s.scripts = {"W", "R", "R", "W"}; s.stateful = true; add(suite, s, 0, flavour); }
        { Spec s = base; s.scripts = {"R", "W", "R"}; s.guards = true; s.stateful = true; add(suite, s, 0, flavour); }
        for (auto &v : multisets(3, {"R", "W"})) { Spec s = base; s.scripts = v; s.stateful = true; s.spurious = 1; add(suite, s, 0, flavour); }
        for (auto &v : multisets(3, {"RW", "WR"})) { Spec s = base; s.scripts = v; s.stateful = true; add(suite, s, 0, flavour); }
        if (thorough) {
            { Spec s = base; s.scripts = {"W", "R", "R", "W", "R"}; s.stateful = true; add(suite, s, 0, flavour); }
            for (auto &v : multisets(5, {"R", "W"})) { Spec s = base; s.scripts = v; s.stateful = true; add(suite, s, 0, flavour); }
            for (auto &v : multisets(3, {"RR", "RW", "WR", "WW"})) { Spec s = base; s.scripts = v; s.stateful = true; add(suite, s, 0, flavour); }
            for (auto &v : multisets(4, {"R", "W"})) { Spec s = base; s.scripts = v; s.stateful = true; s.spurious = 1; add(suite, s, 0, flavour); }
        }
        if (prop == "C03" || prop == "C02") {
            const char *shapes[][2] = {{"W", "R,W,R"}, {"W", "R,R,W"}, {"R", "W,R,R"}, {"R", "W,R,W"}, {"W", "W,R,W"}, {"R", "W,W,R"}};
            for (auto &sh : shapes) for (const char *l : {"", "R", "W"}) {
                Spec s = base; s.holder = sh[0][0]; s.ordered_arrival = true; s.stateful = true;
                std::stringstream ss(sh[1]); std::string tok; while (std::getline(ss, tok, ',')) s.scripts.push_back(tok);
                if (*l) s.late = {l};
                add(suite, s, 0, flavour);
            }
        }
    }
    if (thorough) {
        for (auto &v : multisets(5, {"R", "W"})) { Spec s = base; s.scripts = v; add(suite, s, 2, flavour); }
        { Spec s = base; s.scripts = {"W", "R", "R", "W", "R"}; add(suite, s, 2, flavour); }
        for (auto &v : multisets(3, {"RW", "WR"})) { Spec s = base; s.scripts = v; add(suite, s, 2, flavour); }
    }
    if (prop == "C03" || prop == "C02") {
        // arrival-shaped programs: the holder keeps the lock until every requester has queued up in a known order
        const char *shapes[][2] = {{"W", "R,W,R"}, {"W", "R,R,W"}, {"R", "W,R,R"}, {"R", "W,R,W"}, {"W", "W,R,W"}, {"R", "W,W,R"}};
        for (auto &sh : shapes) {
            Spec s = base; s.holder = sh[0][0]; s.ordered_arrival = true;
            std::stringstream ss(sh[1]); std::string tok; while (std::getline(ss, tok, ',')) s.scripts.push_back(tok);
            add(suite, s, 2, flavour);
            s.spurious = 1; add(suite, s, 2, flavour);       // a queued waiter wakes spuriously while the holder still holds, or between admission and its own wake-up
        }
        if (prop == "C03") {
            // the late reader holds a read lock on another Resource: what it holds elsewhere must not let it pass the writer that waits here
            for (auto &q : std::vector<std::vector<std::string>>{{"W"}, {"W", "R"}, {"W", "W"}}) for (const char *l : {"R", "RR"}) { Spec s = base; s.holder = 'R'; s.ordered_arrival = true; s.scripts = q; s.late = {l}; s.outer_read = true; add(suite, s, 2, flavour); }
            // a queue of two or three waiting requests plus one late arrival of either kind: the late request must not overtake anything that was
            // already waiting when it was issued (e.g. a reader joining the active read batch while a second writer is still queued)
            for (char holder : {'W', 'R'}) for (int k = 2; k <= 3; k++) for (auto &q : sequences(k, {"R", "W"})) {
                if (holder == 'R' && q[0] != "W") continue;
                for (const char *l : {"R", "W"}) { Spec s = base; s.holder = holder; s.ordered_arrival = true; s.scripts = q; s.late = {l}; add(suite, s, thorough ? 2 : (k == 2 ? 2 : 1), flavour); }
            }
        }
        if (thorough) {
            const char *shapes2[][2] = {{"R", "W,R,R,W"}, {"W", "R,W,R,W"}, {"W", "R,R,W,R"}};
            for (auto &sh : shapes2) {
                Spec s = base; s.holder = sh[0][0]; s.ordered_arrival = true;
                std::stringstream ss(sh[1]); std::string tok; while (std::getline(ss, tok, ',')) s.scripts.push_back(tok);
                add(suite, s, 2, flavour);
            }
        }
    }
    return true;
}
VX_REGISTER(provider);
}  // namespace
