/* tsanstub — a stand-in for the ThreadSanitizer runtime, used by the `hooked` flavour.
 *
 * std::atomic operations are inlined by the compiler and cannot be interposed at link time.  Compiling tulz and the harness
 * with -fsanitize=thread makes the compiler emit a call for every atomic operation (__tsan_atomicN_*) and for every plain
 * memory access (__tsan_readN / __tsan_writeN).  The `hooked` flavour links THIS file instead of libtsan: plain accesses are
 * no-ops, atomic operations are performed with the compiler builtins (sequentially consistent) after a scheduling point of
 * the controlled scheduler.  Atomics thereby become visible to the explorer exactly like mutex operations.
 *
 * Compiled WITHOUT instrumentation.
 */
#include <stdint.h>
#include <stddef.h>
#include "vsched.h"

#define TAG_ATOMIC 9000

typedef unsigned __int128 u128;
typedef int morder;

void __tsan_init(void) {}
void __tsan_func_entry(void *pc) { (void)pc; }
void __tsan_func_exit(void) {}
void __tsan_ignore_thread_begin(void) {}
void __tsan_ignore_thread_end(void) {}
void __tsan_acquire(void *p) { (void)p; }
void __tsan_release(void *p) { (void)p; }

#define RW(n) \
    void __tsan_read##n(void *a) { (void)a; } void __tsan_write##n(void *a) { (void)a; } \
    void __tsan_unaligned_read##n(void *a) { (void)a; } void __tsan_unaligned_write##n(void *a) { (void)a; } \
    void __tsan_volatile_read##n(void *a) { (void)a; } void __tsan_volatile_write##n(void *a) { (void)a; } \
    void __tsan_read##n##_pc(void *a, void *pc) { (void)a; (void)pc; } void __tsan_write##n##_pc(void *a, void *pc) { (void)a; (void)pc; }
RW(1) RW(2) RW(4) RW(8) RW(16)
void __tsan_read_range(void *a, unsigned long n) { (void)a; (void)n; }
void __tsan_write_range(void *a, unsigned long n) { (void)a; (void)n; }
void __tsan_read_range_pc(void *a, unsigned long n, void *pc) { (void)a; (void)n; (void)pc; }
void __tsan_write_range_pc(void *a, unsigned long n, void *pc) { (void)a; (void)n; (void)pc; }
void __tsan_vptr_update(void **vptr_p, void *new_val) { (void)vptr_p; (void)new_val; }
void __tsan_vptr_read(void **vptr_p) { (void)vptr_p; }

/* one scheduling point per atomic operation of the code under test (the scheduler ignores the call when the thread is not controlled) */
static inline void pt(void) { vs_point(TAG_ATOMIC); }

#define ATOMICS(T, n) \
    T __tsan_atomic##n##_load(const volatile T *a, morder mo) { (void)mo; pt(); return __atomic_load_n(a, __ATOMIC_SEQ_CST); } \
    void __tsan_atomic##n##_store(volatile T *a, T v, morder mo) { (void)mo; pt(); __atomic_store_n(a, v, __ATOMIC_SEQ_CST); } \
    T __tsan_atomic##n##_exchange(volatile T *a, T v, morder mo) { (void)mo; pt(); return __atomic_exchange_n(a, v, __ATOMIC_SEQ_CST); } \
    T __tsan_atomic##n##_fetch_add(volatile T *a, T v, morder mo) { (void)mo; pt(); return __atomic_fetch_add(a, v, __ATOMIC_SEQ_CST); } \
    T __tsan_atomic##n##_fetch_sub(volatile T *a, T v, morder mo) { (void)mo; pt(); return __atomic_fetch_sub(a, v, __ATOMIC_SEQ_CST); } \
    T __tsan_atomic##n##_fetch_and(volatile T *a, T v, morder mo) { (void)mo; pt(); return __atomic_fetch_and(a, v, __ATOMIC_SEQ_CST); } \
    T __tsan_atomic##n##_fetch_or(volatile T *a, T v, morder mo) { (void)mo; pt(); return __atomic_fetch_or(a, v, __ATOMIC_SEQ_CST); } \
    T __tsan_atomic##n##_fetch_xor(volatile T *a, T v, morder mo) { (void)mo; pt(); return __atomic_fetch_xor(a, v, __ATOMIC_SEQ_CST); } \
    T __tsan_atomic##n##_fetch_nand(volatile T *a, T v, morder mo) { (void)mo; pt(); return __atomic_fetch_nand(a, v, __ATOMIC_SEQ_CST); } \
    int __tsan_atomic##n##_compare_exchange_strong(volatile T *a, T *c, T v, morder mo, morder fmo) { (void)mo; (void)fmo; pt(); return __atomic_compare_exchange_n(a, c, v, 0, __ATOMIC_SEQ_CST, __ATOMIC_SEQ_CST); } \
    int __tsan_atomic##n##_compare_exchange_weak(volatile T *a, T *c, T v, morder mo, morder fmo) { (void)mo; (void)fmo; pt(); return __atomic_compare_exchange_n(a, c, v, 0, __ATOMIC_SEQ_CST, __ATOMIC_SEQ_CST); } \
    T __tsan_atomic##n##_compare_exchange_val(volatile T *a, T c, T v, morder mo, morder fmo) { (void)mo; (void)fmo; pt(); __atomic_compare_exchange_n(a, &c, v, 0, __ATOMIC_SEQ_CST, __ATOMIC_SEQ_CST); return c; }
ATOMICS(uint8_t, 8) ATOMICS(uint16_t, 16) ATOMICS(uint32_t, 32) ATOMICS(uint64_t, 64)

void __tsan_atomic_thread_fence(morder mo) { (void)mo; __atomic_thread_fence(__ATOMIC_SEQ_CST); }
void __tsan_atomic_signal_fence(morder mo) { (void)mo; __atomic_signal_fence(__ATOMIC_SEQ_CST); }
