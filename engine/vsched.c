/* vsched runtime: see vsched.h.  Compiled without sanitizer instrumentation in every flavour. */
#define _GNU_SOURCE
#include <dlfcn.h>
#include <errno.h>
#include <linux/futex.h>
#include <pthread.h>
#include <sched.h>
#include <semaphore.h>
#include <signal.h>
#include <stdarg.h>
#include <stdint.h>
#include <stdio.h>
#include <stdlib.h>
#include <string.h>
#include <sys/syscall.h>
#include <sys/time.h>
#include <time.h>
#include <unistd.h>
#include "vsched.h"

/* ThreadSanitizer annotations (present only in the tsan flavour) */
extern void __tsan_acquire(void *) __attribute__((weak));
extern void __tsan_release(void *) __attribute__((weak));
#define TSAN_ACQ(p) do { if (__tsan_acquire) __tsan_acquire(p); } while (0)
#define TSAN_REL(p) do { if (__tsan_release) __tsan_release(p); } while (0)

enum { ST_UNUSED = 0, ST_READY, ST_LOCK, ST_WAITCV, ST_JOIN, ST_FINISHED, ST_YIELD, ST_PRED, ST_FUTEX };

typedef struct VMutex { void *addr; int owner; int count; } VMutex;
typedef struct VCond { void *addr; int nw; int w[VS_MAXT]; } VCond;

typedef struct VThread {
    int id, state;
    VMutex *m;            /* ST_LOCK: wanted mutex; ST_WAITCV: mutex to re-acquire */
    VCond *cv;            /* ST_WAITCV */
    int target;           /* ST_JOIN */
    int (*pred)(void *); void *predarg;   /* ST_PRED */
    void *faddr; uint32_t fbits; long fseq; /* ST_FUTEX: word waited on, bitset, arrival order */
    int timed; int64_t deadline_ns; int timedout;
    int go;               /* futex word */
    pthread_t real;
    void *(*fn)(void *); void *arg;
    int npoints;
    uint64_t path;        /* rolling hash of the kinds and objects of the scheduling points this thread has passed: identifies its position in its code */
    int tag;              /* tag of the explicit point it is at (vs_point) */
    int joined;
} VThread;

#define MAXM 128
#define MAXC 64

static struct {
    volatile int active;
    VThread T[VS_MAXT]; int nt;
    VMutex M[MAXM]; int nm;
    VCond C[MAXC]; int nc;
    int running;
    struct vs_slot *slot;
    struct vs_options opt;
    int64_t clock_ns;
    int spurious_left;
    int create_faults_left;
    int pruned;
    char note[64];                /* harness annotation appended to a deadlock message (which phase of the script the owner is in) */
    long cell[VS_NCELL];
    uint64_t new_states;
    long fseq;
} G;

static __thread VThread *self;

/* ------------------------------------------------------------------ real functions */
#define REAL(name) ({ static __typeof__(&name) p_; if (!p_) p_ = (__typeof__(&name))dlsym(RTLD_NEXT, #name); p_; })

/* raw system call (the libc wrapper `syscall` is interposed below) */
static long raw_syscall6(long n, long a, long b, long c, long d, long e, long f) {
    long ret;
    register long r10 __asm__("r10") = d; register long r8 __asm__("r8") = e; register long r9 __asm__("r9") = f;
    __asm__ volatile("syscall" : "=a"(ret) : "a"(n), "D"(a), "S"(b), "d"(c), "r"(r10), "r"(r8), "r"(r9) : "rcx", "r11", "memory");
    return ret;
}
static long sys_futex(int *addr, int op, int val) { return raw_syscall6(SYS_futex, (long)addr, op, val, 0, 0, 0); }

static void park(VThread *t) {
    for (;;) {
        if (__atomic_load_n(&t->go, __ATOMIC_ACQUIRE)) break;
        sys_futex(&t->go, FUTEX_WAIT_PRIVATE, 0);
    }
    __atomic_store_n(&t->go, 0, __ATOMIC_RELAXED);
}
static void unpark(VThread *t) {
    __atomic_store_n(&t->go, 1, __ATOMIC_RELEASE);
    sys_futex(&t->go, FUTEX_WAKE_PRIVATE, 1);
}

/* ------------------------------------------------------------------ fatal outcomes */
static void fatal_outcome(int outcome, const char *fmt, ...) __attribute__((noreturn));
static void fatal_outcome(int outcome, const char *fmt, ...) {
    struct vs_slot *s = G.slot;
    if (s) {
        va_list ap; va_start(ap, fmt);
        vsnprintf(s->msg, sizeof s->msg, fmt, ap);
        va_end(ap);
        __atomic_store_n(&s->outcome, outcome, __ATOMIC_SEQ_CST);
    }
    _exit(40 + outcome);
}

void vs_fail(const char *fmt, ...) {
    struct vs_slot *s = G.slot;
    if (s) {
        va_list ap; va_start(ap, fmt);
        vsnprintf(s->msg, sizeof s->msg, fmt, ap);
        va_end(ap);
        __atomic_store_n(&s->outcome, VS_OUT_ORACLE, __ATOMIC_SEQ_CST);
    }
    _exit(40 + VS_OUT_ORACLE);
}

/* ------------------------------------------------------------------ small helpers */
uint64_t vs_mix(uint64_t h, uint64_t v) {
    h ^= v + 0x9e3779b97f4a7c15ULL + (h << 6) + (h >> 2);
    h *= 0xff51afd7ed558ccdULL; h ^= h >> 33;
    return h;
}

static void log_event(int kind, int tid, int a, long b) {
    struct vs_slot *s = G.slot;
    if (s->nev >= VS_MAXE) fatal_outcome(VS_OUT_HORIZON, "event log full (%d events)", VS_MAXE);
    struct vs_ev *e = &s->ev[s->nev];
    e->kind = (int16_t)kind; e->tid = (int16_t)tid; e->a = a; e->b = b;
    __atomic_store_n(&s->nev, s->nev + 1, __ATOMIC_RELEASE);
}

static inline int controlled(void) { return G.active && self != NULL; }
static __thread int in_callback;      /* see vs_point */

static VMutex *mtx(void *addr) {
    for (int i = 0; i < G.nm; i++) if (G.M[i].addr == addr) return &G.M[i];
    if (G.nm >= MAXM) fatal_outcome(VS_OUT_HORIZON, "mutex table full");
    VMutex *m = &G.M[G.nm++]; m->addr = addr; m->owner = -1; m->count = 0;
    return m;
}
static VCond *cnd(void *addr) {
    for (int i = 0; i < G.nc; i++) if (G.C[i].addr == addr) return &G.C[i];
    if (G.nc >= MAXC) fatal_outcome(VS_OUT_HORIZON, "condvar table full");
    VCond *c = &G.C[G.nc++]; c->addr = addr; c->nw = 0;
    return c;
}

/* A waiter may leave its wait without a notification: a timed wait expires, or - POSIX allows it for every condition wait - a spurious wake-up happens
 * (generated at most opt.spurious times per execution, each costs 1 from the deviation budget like a preemption). */
static int is_spurious_alt(const VThread *t) { return t->state == ST_WAITCV && !t->timed && t->m->owner < 0 && G.spurious_left > 0; }
static int is_timeout_alt(const VThread *t) { return (t->state == ST_WAITCV && t->timed && t->m->owner < 0) || (t->state == ST_FUTEX && t->timed) || is_spurious_alt(t); }

static int enabled(const VThread *t) {
    switch (t->state) {
    case ST_READY: case ST_YIELD: return 1;
    case ST_LOCK: return t->m->owner < 0 || t->m->owner == t->id;
    case ST_WAITCV: case ST_FUTEX: return is_timeout_alt(t);
    case ST_JOIN: return G.T[t->target].state == ST_FINISHED;
    case ST_PRED: { in_callback++; int r = t->pred(t->predarg) != 0; in_callback--; return r; }
    default: return 0;
    }
}

static uint64_t fingerprint(void) {
    uint64_t h = 0x1234567;
    for (int i = 0; i < G.nt; i++) {
        VThread *t = &G.T[i];
        if (t->state == ST_FUTEX) h = vs_mix(h, (uint64_t)(uintptr_t)t->faddr);
        h = vs_mix(h, t->path);
        h = vs_mix(h, (uint64_t)t->state | ((uint64_t)t->npoints << 8) | ((uint64_t)(t->m ? (t->m - G.M) + 1 : 0) << 32)
                      | ((uint64_t)(t->cv ? (t->cv - G.C) + 1 : 0) << 40) | ((uint64_t)(t->target + 1) << 48));
    }
    for (int i = 0; i < G.nm; i++) h = vs_mix(h, (uint64_t)(G.M[i].owner + 1));
    for (int i = 0; i < G.nc; i++) { h = vs_mix(h, G.C[i].nw); for (int k = 0; k < G.C[i].nw; k++) h = vs_mix(h, G.C[i].w[k]); }
    h = vs_mix(h, (uint64_t)G.clock_ns + (uint64_t)G.spurious_left + ((uint64_t)G.create_faults_left << 8));
    for (int i = 0; i < VS_NCELL; i++) if (G.cell[i]) h = vs_mix(h, ((uint64_t)i << 48) ^ (uint64_t)G.cell[i]);
    if (G.opt.state_cb) { in_callback++; h = vs_mix(h, G.opt.state_cb()); in_callback--; }
    return h ? h : 1;
}

static void count_state(void) {
    if (!G.opt.state_table) return;
    uint64_t h = fingerprint(), mask = G.opt.state_mask, i = h & mask;
    for (int probe = 0; probe < 64; probe++, i = (i + 1) & mask) {
        uint64_t cur = __atomic_load_n(&G.opt.state_table[i], __ATOMIC_RELAXED);
        if (cur == h) return;
        if (cur == 0) {
            uint64_t exp = 0;
            if (__atomic_compare_exchange_n(&G.opt.state_table[i], &exp, h, 0, __ATOMIC_RELAXED, __ATOMIC_RELAXED)) { G.new_states++; return; }
            if (exp == h) return;
        }
    }
}

/* record/replay one choice among n alternatives */
static int choose(int n, int flags, uint32_t sig) {
    struct vs_record *r = &G.slot->rec;
    int i = r->n;
    if (i >= VS_MAXP) fatal_outcome(VS_OUT_HORIZON, "more than %d choice points in one execution", VS_MAXP);
    int c = 0;
    if (i < G.opt.prefix_len) {
        c = G.opt.prefix[i];
        if (c >= n) fatal_outcome(VS_OUT_NONDET, "replay diverged at choice point %d: choice %d but only %d alternatives", i, c, n);
    }
    if (i < G.opt.exp_len && G.opt.exp_nalt && (G.opt.exp_nalt[i] != n || G.opt.exp_sig[i] != sig))
        fatal_outcome(VS_OUT_NONDET, "replay diverged at choice point %d: enabled set differs (alternatives %d vs %d)", i, n, G.opt.exp_nalt[i]);
    r->choice[i] = (uint8_t)c; r->nalt[i] = (uint8_t)n; r->flags[i] = (uint8_t)flags; r->sig[i] = sig;
    __atomic_store_n(&r->n, i + 1, __ATOMIC_RELEASE);
    return c;
}

/* The heart: called by the running thread `me` after it has set its pending state. Returns when `me` has been chosen
 * again (and, for ST_LOCK, owns the mutex).  A finished thread never returns to control. */
static void sched(VThread *me) {
    struct vs_slot *s = G.slot;
    s->heartbeat++;
    if (++s->steps > (uint64_t)G.opt.horizon) fatal_outcome(VS_OUT_HORIZON, "step horizon %d exceeded (livelock or polling loop?)", G.opt.horizon);
    me->npoints++;
    me->path = vs_mix(me->path, (uint64_t)me->state | ((uint64_t)(me->m ? (me->m - G.M) + 1 : 0) << 8) | ((uint64_t)(me->cv ? (me->cv - G.C) + 1 : 0) << 16) | ((uint64_t)(me->target + 1) << 24) | ((uint64_t)(uint32_t)me->tag << 32));
    me->tag = 0;
    count_state();
    /* stateful exploration: a state that has been reached before (by any execution of this program) has had all its alternatives explored from there, so this
     * execution offers no further alternatives from here on.  States inside the replayed prefix are the ancestors of this execution and are not looked up. */
    if (G.opt.prune_table && !G.pruned && s->rec.n >= G.opt.prefix_len) {
        uint64_t h = vs_mix(fingerprint(), G.opt.prune_salt), mask = G.opt.prune_mask, i = h & mask; int found = 0, placed = 0;
        if (!h) h = 1;
        for (int probe = 0; probe < 256 && !found && !placed; probe++, i = (i + 1) & mask) {
            uint64_t cur = __atomic_load_n(&G.opt.prune_table[i], __ATOMIC_RELAXED);
            if (cur == h) found = 1;
            else if (cur == 0) {
                uint64_t exp = 0;
                if (__atomic_compare_exchange_n(&G.opt.prune_table[i], &exp, h, 0, __ATOMIC_RELAXED, __ATOMIC_RELAXED)) placed = 1;
                else if (exp == h) found = 1;
            }
        }
        if (found) { if (!G.opt.prune_audit) { G.pruned = 1; s->rec.pruned_at = s->rec.n; } }
        else if (placed) s->rec.new_states++;
        else s->rec.table_full = 1;      /* never prune on a full table */
    }

    int en[VS_MAXT], n = 0, ntimeout = 0;
    int me_en = enabled(me) && !is_timeout_alt(me) && me->state != ST_YIELD;
    if (me_en) en[n++] = me->id;
    for (int i = 0; i < G.nt; i++) {
        VThread *t = &G.T[i];
        if (t == me && me_en) continue;
        if (t->state == ST_YIELD) continue;
        if (enabled(t) && !is_timeout_alt(t)) en[n++] = i;
    }
    /* a thread that yielded/slept goes after everybody else; switching away from it is free */
    for (int i = 0; i < G.nt; i++) if (G.T[i].state == ST_YIELD) en[n++] = i;
    int nnormal = n;
    /* a spurious wake-up is only offered while somebody else can run: it must not turn a deadlock (everybody waits, nobody will ever notify) into progress */
    for (int i = 0; i < G.nt; i++) if (is_timeout_alt(&G.T[i]) && (nnormal > 0 || !is_spurious_alt(&G.T[i]))) { en[n++] = i; ntimeout++; }

    if (n == 0) {
        char buf[1024]; int o = 0;
        for (int i = 0; i < G.nt && o < 900; i++) {
            VThread *t = &G.T[i];
            const char *st = t->state == ST_LOCK ? "blocked-on-mutex" : t->state == ST_WAITCV ? "waiting-on-condvar" :
                             t->state == ST_JOIN ? "joining" : t->state == ST_FINISHED ? "finished" :
                             t->state == ST_PRED ? "blocked-in-harness-wait" : t->state == ST_FUTEX ? "waiting-on-futex(atomic-wait/semaphore)" : "ready";
            o += snprintf(buf + o, sizeof buf - o, " t%d:%s", i, st);
            if (t->state == ST_JOIN) o += snprintf(buf + o, sizeof buf - o, "(t%d)", t->target);
        }
        fatal_outcome(VS_OUT_DEADLOCK, "deadlock: no enabled thread;%s%s%s", buf, G.note[0] ? " note=" : "", G.note);
    }
    int pick = 0;
    if (n > 1) {
        uint32_t sig = 2166136261u;
        for (int i = 0; i < n; i++) { sig = (sig ^ (uint32_t)(en[i] * 16 + G.T[en[i]].state)) * 16777619u; }
        int flags = (me_en ? VS_F_RUNNING_ENABLED : 0) | (ntimeout && nnormal ? VS_F_TIMEOUT : 0) | ((ntimeout & 15) << 4);
        pick = choose(n, flags, sig);
    }
    VThread *next = &G.T[en[pick]];
    if (is_timeout_alt(next) && next->state == ST_FUTEX) {          /* the timed futex wait expires */
        next->timedout = 1; next->state = ST_READY; next->faddr = NULL;
        if (G.clock_ns < next->deadline_ns) G.clock_ns = next->deadline_ns;
        log_event(VS_EV_TIMEOUT, next->id, 1, 0);
    } else if (is_timeout_alt(next)) {          /* the timed wait expires, or the wait ends spuriously */
        int spurious = is_spurious_alt(next);
        VCond *c = next->cv;
        for (int k = 0; k < c->nw; k++) if (c->w[k] == next->id) { memmove(&c->w[k], &c->w[k + 1], (c->nw - k - 1) * sizeof(int)); c->nw--; break; }
        next->state = ST_LOCK; next->cv = NULL;
        if (spurious) { next->timedout = 0; G.spurious_left--; log_event(VS_EV_TIMEOUT, next->id, 2, 0); }
        else {
            next->timedout = 1;
            if (G.clock_ns < next->deadline_ns) G.clock_ns = next->deadline_ns;
            log_event(VS_EV_TIMEOUT, next->id, 0, 0);
        }
    }
    if (next != me) {
        G.running = next->id;
        int finished = me->state == ST_FINISHED;
        unpark(next);
        if (finished) return;
        park(me);
    }
    /* `me` runs: perform the effect of the pending operation */
    if (me->state == ST_LOCK) { me->m->owner = me->id; me->m->count++; }
    me->state = ST_READY;
}

static void point(VThread *me) { me->state = ST_READY; sched(me); }

/* ------------------------------------------------------------------ public harness API */
int vs_active(void) { return G.active; }
int vs_self(void) { return controlled() ? self->id : -1; }
/* Harness callbacks (state fingerprint, blocking predicates, park hook) run INSIDE the scheduler and may read std::atomic members of the object under test; in the
 * hooked flavour such a read arrives here as a scheduling point, which must be ignored. */
void vs_point(int tag) { if (controlled() && !in_callback) { self->tag = tag; point(self); } }
void vs_event(int kind, int a, long b) { if (controlled()) log_event(kind, self->id, a, b); }
long vs_cell_get(int i) { return G.cell[i]; }
void vs_cell_set(int i, long v) { G.cell[i] = v; }
long vs_cell_add(int i, long d) { return G.cell[i] += d; }
void vs_clock_advance_ms(long ms) { G.clock_ns += (int64_t)ms * 1000000; }
long vs_clock_ms(void) { return (long)(G.clock_ns / 1000000); }
const struct vs_ev *vs_log(int *n) { *n = G.slot ? G.slot->nev : 0; return G.slot ? G.slot->ev : NULL; }
int vs_thread_finished(int tid) { return tid >= 0 && tid < G.nt && G.T[tid].state == ST_FINISHED; }
int vs_thread_waiting(int tid) { return tid >= 0 && tid < G.nt && G.T[tid].state == ST_WAITCV; }
void vs_block_until(int (*pred)(void *), void *arg) {
    if (!controlled()) return;
    VThread *me = self;
    me->state = ST_PRED; me->pred = pred; me->predarg = arg;
    sched(me);
}
void vs_note(const char *s) { snprintf(G.note, sizeof G.note, "%s", s ? s : ""); }
uint64_t vs_new_states(void) { uint64_t v = G.new_states; G.new_states = 0; return v; }

void vs_begin(struct vs_slot *slot, const struct vs_options *opt) {
    memset(G.T, 0, sizeof G.T); G.nt = 1; G.nm = 0; G.nc = 0;
    memset(G.cell, 0, sizeof G.cell);
    G.slot = slot; G.opt = *opt;
    if (G.opt.horizon <= 0) G.opt.horizon = 20000;
    G.spurious_left = G.opt.spurious; G.note[0] = 0; G.pruned = 0; G.create_faults_left = G.opt.create_faults;
    slot->rec.pruned_at = VS_MAXP + 1; slot->rec.new_states = 0; slot->rec.table_full = 0;
    G.clock_ns = 1700000000LL * 1000000000LL;
    slot->rec.n = 0; slot->nev = 0; slot->outcome = VS_OUT_RUNNING; slot->msg[0] = 0; slot->steps = 0; slot->parked_any = 0;
    G.T[0].id = 0; G.T[0].state = ST_READY; G.T[0].real = pthread_self();
    G.running = 0;
    self = &G.T[0];
    __atomic_store_n(&G.active, 1, __ATOMIC_SEQ_CST);
}

void vs_end(void) {
    G.slot->nthreads = G.nt;
    for (int i = 1; i < G.nt; i++)
        if (G.T[i].state != ST_FINISHED) fatal_outcome(VS_OUT_ORACLE, "harness error: thread t%d still alive at the end of the program", i);
    __atomic_store_n(&G.active, 0, __ATOMIC_SEQ_CST);
    self = NULL;
    /* reap threads nobody joined (detached ones excluded) so that the process does not accumulate them */
}

/* ------------------------------------------------------------------ interposed pthread functions */
int pthread_mutex_lock(pthread_mutex_t *mu) {
    if (!controlled()) return REAL(pthread_mutex_lock)(mu);
    VThread *me = self; VMutex *m = mtx(mu);
    if (m->owner == me->id && (mu->__data.__kind & 3) != PTHREAD_MUTEX_RECURSIVE_NP)
        fatal_outcome(VS_OUT_DEADLOCK, "deadlock: t%d relocks a non-recursive mutex it already owns", me->id);
    me->state = ST_LOCK; me->m = m;
    sched(me);
    me->m = NULL;
    TSAN_ACQ(mu);
    return 0;
}

int pthread_mutex_trylock(pthread_mutex_t *mu) {
    if (!controlled()) return REAL(pthread_mutex_trylock)(mu);
    VThread *me = self; VMutex *m = mtx(mu);
    point(me);
    if (m->owner >= 0 && !(m->owner == me->id && (mu->__data.__kind & 3) == PTHREAD_MUTEX_RECURSIVE_NP)) return EBUSY;
    m->owner = me->id; m->count++;
    TSAN_ACQ(mu);
    return 0;
}

int pthread_mutex_timedlock(pthread_mutex_t *mu, const struct timespec *ts) { (void)ts; return pthread_mutex_lock(mu); }
int pthread_mutex_clocklock(pthread_mutex_t *mu, clockid_t c, const struct timespec *ts) { (void)c; (void)ts; return pthread_mutex_lock(mu); }

int pthread_mutex_unlock(pthread_mutex_t *mu) {
    if (!controlled()) return REAL(pthread_mutex_unlock)(mu);
    VThread *me = self; VMutex *m = mtx(mu);
    if (m->owner != me->id) fatal_outcome(VS_OUT_ORACLE, "t%d unlocks a mutex it does not own (owner t%d)", me->id, m->owner);
    TSAN_REL(mu);
    if (--m->count == 0) m->owner = -1;
    if (G.opt.unlock_points) point(me);
    return 0;
}

int pthread_mutex_destroy(pthread_mutex_t *mu) {
    if (!controlled()) return REAL(pthread_mutex_destroy)(mu);
    for (int i = 0; i < G.nm; i++) if (G.M[i].addr == mu) { G.M[i].addr = NULL; G.M[i].owner = -1; G.M[i].count = 0; }
    return 0;
}

static int cond_wait_common(pthread_cond_t *cv, pthread_mutex_t *mu, int timed, int64_t deadline_ns) {
    VThread *me = self; VCond *c = cnd(cv); VMutex *m = mtx(mu);
    if (m->owner != me->id) fatal_outcome(VS_OUT_ORACLE, "t%d waits on a condition variable without owning the mutex", me->id);
    point(me);                                  /* the window between predicate evaluation and blocking */
    if (G.opt.park_cb) { in_callback++; G.opt.park_cb(me->id); in_callback--; }   /* the thread still owns the mutex: the harness may read what the waiter has just published */
    TSAN_REL(mu);
    m->count = 0; m->owner = -1;
    c->w[c->nw++] = me->id;
    me->state = ST_WAITCV; me->cv = c; me->m = m; me->timed = timed; me->deadline_ns = deadline_ns; me->timedout = 0;
    G.slot->parked_any = 1;
    log_event(VS_EV_PARK, me->id, (int)(c - G.C), 0);
    sched(me);                                  /* disabled until signalled (or timed out); returns owning the mutex */
    me->m = NULL; me->cv = NULL; me->timed = 0;
    TSAN_ACQ(mu);
    log_event(VS_EV_UNPARK, me->id, (int)(c - G.C), me->timedout);
    return me->timedout ? ETIMEDOUT : 0;
}

static int64_t ts_ns(const struct timespec *ts) { return (int64_t)ts->tv_sec * 1000000000LL + ts->tv_nsec; }

int pthread_cond_wait(pthread_cond_t *cv, pthread_mutex_t *mu) {
    if (!controlled()) return REAL(pthread_cond_wait)(cv, mu);
    return cond_wait_common(cv, mu, 0, 0);
}
int pthread_cond_timedwait(pthread_cond_t *cv, pthread_mutex_t *mu, const struct timespec *ts) {
    if (!controlled()) return REAL(pthread_cond_timedwait)(cv, mu, ts);
    return cond_wait_common(cv, mu, 1, ts_ns(ts));
}
int pthread_cond_clockwait(pthread_cond_t *cv, pthread_mutex_t *mu, clockid_t clk, const struct timespec *ts) {
    if (!controlled()) return REAL(pthread_cond_clockwait)(cv, mu, clk, ts);
    return cond_wait_common(cv, mu, 1, ts_ns(ts));
}

static void wake_waiter(VCond *c, int k) {
    VThread *w = &G.T[c->w[k]];
    memmove(&c->w[k], &c->w[k + 1], (c->nw - k - 1) * sizeof(int)); c->nw--;
    w->state = ST_LOCK; w->cv = NULL;           /* now competes for the mutex */
}

int pthread_cond_signal(pthread_cond_t *cv) {
    if (!controlled()) return REAL(pthread_cond_signal)(cv);
    VThread *me = self; VCond *c = cnd(cv);
    point(me);
    if (c->nw > 0) {
        int k = 0;
        if (c->nw > 1) {
            uint32_t sig = 0x51;
            for (int i = 0; i < c->nw; i++) sig = sig * 31 + c->w[i];
            k = choose(c->nw, VS_F_SIGNAL_TARGET, sig);
        }
        log_event(VS_EV_SIGNAL, me->id, (int)(c - G.C), c->w[k]);
        wake_waiter(c, k);
    } else log_event(VS_EV_SIGNAL, me->id, (int)(c - G.C), -1);
    return 0;
}

int pthread_cond_broadcast(pthread_cond_t *cv) {
    if (!controlled()) return REAL(pthread_cond_broadcast)(cv);
    VThread *me = self; VCond *c = cnd(cv);
    point(me);
    log_event(VS_EV_BROADCAST, me->id, (int)(c - G.C), c->nw);
    while (c->nw > 0) wake_waiter(c, 0);
    return 0;
}

int pthread_cond_destroy(pthread_cond_t *cv) {
    if (!controlled()) return REAL(pthread_cond_destroy)(cv);
    for (int i = 0; i < G.nc; i++) if (G.C[i].addr == cv) {
        if (G.C[i].nw) fatal_outcome(VS_OUT_ORACLE, "condition variable destroyed while %d thread(s) wait on it", G.C[i].nw);
        G.C[i].addr = NULL;
    }
    return 0;
}

static void *trampoline(void *p) {
    VThread *t = (VThread *)p;
    self = t;
    park(t);                                    /* wait until first scheduled */
    t->state = ST_READY;
    log_event(VS_EV_THREAD_START, t->id, 0, 0);
    void *ret = t->fn(t->arg);
    log_event(VS_EV_THREAD_FINISH, t->id, 0, 0);
    t->state = ST_FINISHED;
    self = NULL;
    sched(t);                                   /* hands control to somebody else and returns at once */
    return ret;
}

int pthread_create(pthread_t *th, const pthread_attr_t *attr, void *(*fn)(void *), void *arg) {
    if (!controlled()) return REAL(pthread_create)(th, attr, fn, arg);
    VThread *me = self;
    if (G.nt >= VS_MAXT) fatal_outcome(VS_OUT_HORIZON, "more than %d controlled threads", VS_MAXT);
    if (G.create_faults_left > 0) {
        /* environment fault: the system cannot create a thread right now.  The default answer is success; the failure is an alternative that costs 1 like a preemption. */
        if (choose(2, VS_F_RUNNING_ENABLED, 0xC4EA7Eu) == 1) { G.create_faults_left--; log_event(VS_EV_CREATE_FAILED, me->id, -1, EAGAIN); return EAGAIN; }
    }
    VThread *t = &G.T[G.nt];
    memset(t, 0, sizeof *t);
    t->id = G.nt; t->state = ST_READY; t->fn = fn; t->arg = arg; t->go = 0;
    int rc = REAL(pthread_create)(&t->real, attr, trampoline, t);
    if (rc) return rc;
    G.nt++;
    *th = t->real;
    log_event(VS_EV_CREATE, me->id, t->id, 0);
    point(me);                                  /* the child may run before the parent continues */
    return 0;
}

int pthread_join(pthread_t th, void **ret) {
    if (!controlled()) return REAL(pthread_join)(th, ret);
    VThread *me = self; int target = -1;
    for (int i = 1; i < G.nt; i++) if (pthread_equal(G.T[i].real, th) && !G.T[i].joined) target = i;
    if (target < 0) return REAL(pthread_join)(th, ret);
    me->state = ST_JOIN; me->target = target;
    sched(me);
    me->target = 0;
    G.T[target].joined = 1;
    log_event(VS_EV_JOINED, me->id, target, 0);
    return REAL(pthread_join)(th, ret);
}

/* ------------------------------------------------------------------ futex words: C++20 std::atomic wait/notify, semaphores, latches
 * libstdc++ implements them in headers on top of the libc wrapper syscall(SYS_futex, ...), which the executable interposes.  FUTEX_WAIT is a
 * scheduling point followed by the value check; a thread whose check passes is disabled until a FUTEX_WAKE on the same word picks it (which
 * waiter a wake of one picks is a recorded free choice) or, for timed waits, until the timeout alternative is taken.  A wake is a scheduling
 * point before and after its effect (the window between "published the flag" and "the woken thread runs"). */
static long real_syscall_ret(long r) { if (r < 0 && r > -4096) { errno = (int)-r; return -1; } return r; }

static long futex_op(int *addr, int op, int val, const struct timespec *ts, uint32_t bits) {
    VThread *me = self;
    int cmd = op & 127;
    if (cmd == FUTEX_WAIT || cmd == FUTEX_WAIT_BITSET) {
        point(me);
        if (__atomic_load_n(addr, __ATOMIC_SEQ_CST) != val) { errno = EAGAIN; return -1; }
        me->state = ST_FUTEX; me->faddr = addr; me->fbits = cmd == FUTEX_WAIT ? 0xffffffffu : bits; me->fseq = ++G.fseq; me->timedout = 0;
        me->timed = ts != NULL;
        if (ts) me->deadline_ns = cmd == FUTEX_WAIT ? G.clock_ns + ts_ns(ts) : ts_ns(ts);
        G.slot->parked_any = 1;
        log_event(VS_EV_PARK, me->id, -1, (long)(uintptr_t)addr & 0xffff);
        sched(me);
        me->faddr = NULL; me->timed = 0;
        log_event(VS_EV_UNPARK, me->id, -1, me->timedout);
        if (me->timedout) { errno = ETIMEDOUT; return -1; }
        return 0;
    }
    if (cmd == FUTEX_WAKE || cmd == FUTEX_WAKE_BITSET) {
        if (cmd == FUTEX_WAKE) bits = 0xffffffffu;
        point(me);
        int w[VS_MAXT], nw = 0;
        for (int i = 0; i < G.nt; i++) if (G.T[i].state == ST_FUTEX && G.T[i].faddr == addr && (G.T[i].fbits & bits)) w[nw++] = i;
        for (int i = 1; i < nw; i++) for (int j = i; j > 0 && G.T[w[j]].fseq < G.T[w[j - 1]].fseq; j--) { int t = w[j]; w[j] = w[j - 1]; w[j - 1] = t; }
        int woken = 0;
        if (nw > 0 && val == 1) {
            int k = 0;
            if (nw > 1) { uint32_t sig = 0x77; for (int i = 0; i < nw; i++) sig = sig * 31 + (uint32_t)w[i]; k = choose(nw, VS_F_SIGNAL_TARGET, sig); }
            G.T[w[k]].state = ST_READY; woken = 1;
            log_event(VS_EV_SIGNAL, me->id, -1, w[k]);
        } else {
            for (int i = 0; i < nw && woken < val; i++) { G.T[w[i]].state = ST_READY; woken++; }
            log_event(VS_EV_BROADCAST, me->id, -1, woken);
        }
        if (woken) point(me);
        return woken;
    }
    fatal_outcome(VS_OUT_HORIZON, "futex operation %d is not modelled by the scheduler", cmd);
}

long syscall(long n, ...) {
    va_list ap; va_start(ap, n);
    long a = va_arg(ap, long), b = va_arg(ap, long), c = va_arg(ap, long), d = va_arg(ap, long), e = va_arg(ap, long), f = va_arg(ap, long);
    va_end(ap);
    if (n == SYS_futex && controlled()) return futex_op((int *)a, (int)b, (int)c, (const struct timespec *)d, (uint32_t)f);
    return real_syscall_ret(raw_syscall6(n, a, b, c, d, e, f));
}

/* ------------------------------------------------------------------ time */
static void yield_point(void) { VThread *me = self; me->state = ST_YIELD; sched(me); }

int sched_yield(void) { if (controlled()) { yield_point(); return 0; } return (int)real_syscall_ret(raw_syscall6(SYS_sched_yield, 0, 0, 0, 0, 0, 0)); }

int nanosleep(const struct timespec *req, struct timespec *rem) {
    if (!controlled()) return (int)real_syscall_ret(raw_syscall6(SYS_nanosleep, (long)req, (long)rem, 0, 0, 0, 0));
    G.clock_ns += ts_ns(req); yield_point(); return 0;
}
int clock_nanosleep(clockid_t clk, int flags, const struct timespec *req, struct timespec *rem) {
    if (!controlled()) return (int)real_syscall_ret(raw_syscall6(SYS_clock_nanosleep, clk, flags, (long)req, (long)rem, 0, 0));
    if (flags & TIMER_ABSTIME) { if (ts_ns(req) > G.clock_ns) G.clock_ns = ts_ns(req); } else G.clock_ns += ts_ns(req);
    yield_point(); return 0;
}
int usleep(useconds_t us) {
    if (!controlled()) { struct timespec ts = { us / 1000000, (long)(us % 1000000) * 1000 }; return (int)real_syscall_ret(raw_syscall6(SYS_nanosleep, (long)&ts, 0, 0, 0, 0, 0)); }
    G.clock_ns += (int64_t)us * 1000; yield_point(); return 0;
}
unsigned int sleep(unsigned int sec) {
    if (!controlled()) { struct timespec ts = { sec, 0 }; raw_syscall6(SYS_nanosleep, (long)&ts, 0, 0, 0, 0, 0); return 0; }
    G.clock_ns += (int64_t)sec * 1000000000LL; yield_point(); return 0;
}

int clock_gettime(clockid_t clk, struct timespec *ts) {
    if (controlled()) { ts->tv_sec = G.clock_ns / 1000000000LL; ts->tv_nsec = G.clock_ns % 1000000000LL; return 0; }
    return (int)real_syscall_ret(raw_syscall6(SYS_clock_gettime, clk, (long)ts, 0, 0, 0, 0));
}
int gettimeofday(struct timeval *tv, void *tz) {
    if (controlled()) { if (tv) { tv->tv_sec = G.clock_ns / 1000000000LL; tv->tv_usec = (G.clock_ns % 1000000000LL) / 1000; } return 0; }
    return (int)real_syscall_ret(raw_syscall6(SYS_gettimeofday, (long)tv, (long)tz, 0, 0, 0, 0));
}
time_t time(time_t *t) {
    time_t v;
    if (controlled()) v = (time_t)(G.clock_ns / 1000000000LL);
    else { struct timespec ts; raw_syscall6(SYS_clock_gettime, CLOCK_REALTIME, (long)&ts, 0, 0, 0, 0); v = ts.tv_sec; }
    if (t) *t = v;
    return v;
}
