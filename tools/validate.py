#!/opt/veriftools/pyvenv/bin/python3
"""Validates MANIFEST.json and every evidence file against the schemas (run with python3-vt)."""
import json, glob, sys, os, jsonschema
V = os.path.dirname(os.path.dirname(os.path.abspath(__file__)))
ok = True
try:
    jsonschema.validate(json.load(open(V + "/MANIFEST.json")), json.load(open("/root/.vp/MANIFEST.schema.json")))
    print("MANIFEST ok")
except Exception as e:
    ok = False; print("MANIFEST INVALID:", e)
es = json.load(open("/root/.vp/EVIDENCE.schema.json"))
for f in sorted(glob.glob(V + "/evidence/*.json")):
    try:
        jsonschema.validate(json.load(open(f)), es); print(os.path.basename(f), "ok")
    except Exception as e:
        ok = False; print(os.path.basename(f), "INVALID:", str(e)[:300])
sys.exit(0 if ok else 1)
