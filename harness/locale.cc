// E2 harness for tulz::LocaleInfo::get: C19 (total, memory-safe, consistent with its tables), exhaustive over a structured input space.
#include <tulz/LocaleInfo.h>

#include <set>
#include <sstream>
#include <sys/wait.h>
#include <unistd.h>
#include <string>
#include <vector>

#include "seqx.h"

using namespace sx;
using tulz::LocaleInfo;

namespace {
std::string g_after, g_hist;
void bad(const std::string &sig, const std::string &msg) { violation(sig, msg + g_after, g_hist); }

std::string show(const std::string &s) { return s.size() > 40 ? s.substr(0, 18) + "..(" + std::to_string(s.size()) + " bytes).." + s.substr(s.size() - 8) : s; }

struct Expect { bool recognized = false; const char *code = nullptr; std::vector<const char *> names; const LocaleInfo::CountryInfo *country = nullptr; };

// independent reading of the documented format: language '_' COUNTRY [ '.' charset ]
Expect oracle(const std::string &s) {
    Expect e;
    size_t us = s.find('_');
    if (us == std::string::npos) return e;
    std::string L = s.substr(0, us), R = s.substr(us + 1);
    for (int i = 0; i < LocaleInfo::languagesCount; i++) { auto &inf = LocaleInfo::languageInfo[i]; if (L == inf.code || L == inf.value) { e.code = inf.code; break; } }
    if (!e.code) return e;
    for (int i = 0; i < LocaleInfo::languagesCount; i++) if (std::string(LocaleInfo::languageInfo[i].code) == e.code) e.names.push_back(LocaleInfo::languageInfo[i].value);
    for (int i = 0; i < LocaleInfo::countiesCount && !e.country; i++) {
        auto &inf = LocaleInfo::countryInfo[i];
        for (const char *c : {inf.code, inf.value}) { std::string C = c; if (R == C || (R.size() > C.size() && R.compare(0, C.size(), C) == 0 && R[C.size()] == '.')) e.country = &inf; }
    }
    e.recognized = e.country != nullptr;
    return e;
}

bool is_lang_code_ptr(const char *p) { for (int i = 0; i < LocaleInfo::languagesCount; i++) if (LocaleInfo::languageInfo[i].code == p) return true; return false; }
bool is_lang_name_ptr(const char *p) { for (int i = 0; i < LocaleInfo::languagesCount; i++) if (LocaleInfo::languageInfo[i].value == p) return true; return false; }

uint64_t g_recognized;

void check(const std::string &s, const std::string &history = "") {
    g_hist = history; g_after = history.empty() ? "" : " [as part of the call history " + history.substr(10) + "; the answer to a string must not depend on earlier calls]";
    // LocaleInfo::get reports every fallback on stderr; keep that chatter out of the log (the sanitizers write to fd 2 directly and are not affected)
    static FILE *devnull = nullptr;
    if (!devnull) { devnull = fopen("/dev/null", "w"); if (devnull) stderr = devnull; }
    shm->evaluations++; shm->transitions++;
    // pre-poison the stack region the callee is going to use, so that fields it leaves uninitialised do not look plausible by accident
    { volatile char junk[2048]; for (size_t i = 0; i < sizeof junk; i++) junk[i] = (char)0xA5; asm volatile("" ::: "memory"); }
    LocaleInfo::Info r = LocaleInfo::get(s.c_str());
    Expect e = oracle(s);
    if (e.recognized) {
        g_recognized++; shm->nontrivial++;
        if (r.error != nullptr) { bad("locale:known-rejected", "get(\"" + show(s) + "\") fell back with an error although the language (" + e.code + ") and the country (" + e.country->code + ") are in the tables"); return; }
        if (r.languageCode != e.code && !(is_lang_code_ptr(r.languageCode) && std::string(r.languageCode) == e.code)) { bad("locale:language-code", "get(\"" + show(s) + "\"): languageCode is not the table entry for " + e.code); return; }
        std::vector<const char *> got(r.languages.begin(), r.languages.end());
        if (got != e.names) {
            std::string a, b; for (auto p : got) a += std::string(is_lang_name_ptr(p) ? p : "<not a table pointer>") + "; "; for (auto p : e.names) b += std::string(p) + "; ";
            bad("locale:language-names", "get(\"" + show(s) + "\"): languages = [" + a + "], expected all table names of code " + e.code + " in table order: [" + b + "]");
        }
        if (r.country != e.country->value || r.countryCode != e.country->code) bad("locale:country", "get(\"" + show(s) + "\"): country/countryCode are not the table entry for " + e.country->code);
    } else {
        if (r.error == nullptr) {
            bool plausible = is_lang_code_ptr(r.languageCode);
            bad("locale:unknown-accepted", "get(\"" + show(s) + "\") reported success although the string is not language_COUNTRY[.charset] with both parts in the tables (languageCode " + std::string(plausible ? r.languageCode : "<not a table pointer / uninitialised>") +
                                               ", " + std::to_string(r.languages.size()) + " language names)");
            return;
        }
        bool ok = r.languageCode && std::string(r.languageCode) == "en" && r.languages.size() == 1 && std::string(r.languages.front()) == "English" && r.countryCode && std::string(r.countryCode) == "GB" && r.country && std::string(r.country) == "United Kingdom";
        if (!ok) bad("locale:fallback", "get(\"" + show(s) + "\") set error but did not return the en / English / GB / United Kingdom fallback");
    }
}

void explore() {
    std::vector<std::function<void()>> tasks;
    // (a) every language (by code and by name) x every country (by code and by name) x charset suffixes
    std::vector<std::string> langs, countries;
    { std::set<std::string> seen; for (int i = 0; i < LocaleInfo::languagesCount; i++) { for (const char *p : {LocaleInfo::languageInfo[i].code, LocaleInfo::languageInfo[i].value}) if (seen.insert(p).second) langs.push_back(p); } }
    { std::set<std::string> seen; for (int i = 0; i < LocaleInfo::countiesCount; i++) { for (const char *p : {LocaleInfo::countryInfo[i].code, LocaleInfo::countryInfo[i].value}) if (seen.insert(p).second) countries.push_back(p); } }
    int parts = 12;
    for (int part = 0; part < parts; part++) tasks.push_back([=] {
        for (size_t li = part; li < langs.size(); li += parts) for (auto &c : countries) for (const char *suffix : {"", ".UTF-8", ".", ".1252"}) {
            std::string s = langs[li] + "_" + c + suffix;
            mark("locale " + s); check(s);
        }
        if (part == 0) { sample("locale Valencian_Virgin Islands, U.S..UTF-8"); sample("locale cu_GB."); }
        shm->states += g_recognized;
    });
    // (b) every string up to the length bound over an alphabet that contains both delimiters and pieces of known codes
    int maxlen = thorough() ? 7 : 6;
    const char ALPHA[] = {'e', 'n', 'G', 'B', '_', '.', 'x'};
    for (int first = 0; first < 7; first++) tasks.push_back([=] {
        for (int len = 0; len <= maxlen; len++) {
            if (len == 0 && first != 0) continue;
            std::vector<int> ix(len, 0); if (len) ix[0] = first;
            for (;;) {
                std::string s; for (int i = 0; i < len; i++) s += ALPHA[ix[i]];
                mark("locale " + s); check(s);
                int i = 1; while (i < len && ++ix[i] == 7) ix[i++] = 0;
                if (i >= len) break;
            }
        }
        if (first == 4) sample("locale _GB.x_");
        shm->states += g_recognized;
    });
    // (c) the length family: language and country parts of every length 0..80 (crossing the 64-byte scratch buffer), delimiters in every order
    tasks.push_back([=] {
        for (int n = 0; n <= 80; n++) for (int m = 0; m <= 80; m++) {
            std::string L(n, 'q'), C(m, 'Q');
            for (auto &s : {L + "_" + C, L + "_" + C + ".utf8", L + ".s_" + C, L + "_GB", "en_" + C, "en_" + C + ".x", L + ".UTF-8_GB", std::string("English_") + C})
                if (m == 0 || n == 0 || m % 7 == 1 || n % 7 == 1 || (m >= 60 && m <= 68) || (n >= 60 && n <= 68)) { mark("locale " + s); check(s); }
        }
        for (int n = 0; n <= 80; n++) { std::string L(n, 'q'); for (auto &s : {L, "_" + L, L + "_", L + ".", "." + L, L + "._", L + "_.", "en_GB." + L, "en_GB" + L}) { mark("locale " + s); check(s); } }
        for (auto &s : {std::string(""), std::string("."), std::string("_"), std::string("._"), std::string("_."), std::string("en"), std::string("GB"), std::string("en_GB"), std::string("English_United States.1252"), std::string("hu_HU")}) { mark("locale " + s); check(s); }
        sample("locale qqqq(64 x q)_GB");
        shm->states += g_recognized;
    });
    // (d) call histories: get() is specified as a function of its argument, so the answer must not depend on what was asked before.  Every sequence of <= 3 calls over a
    //     small alphabet of inputs (recognised by code and by name, unknown, malformed, empty, over-long), each sequence in a fresh process, every answer checked.
    {
        static const std::vector<std::string> H = {"en_GB", "de_DE.UTF-8", "Hungarian_Hungary", "cu_AF", "C", "", "en_", "xx_YY", "_GB", "en_GB.", std::string(70, 'q') + "_GB", "fr_FR"};
        size_t maxseq = thorough() ? 4 : 3;
        for (size_t first = 0; first < H.size(); first++) tasks.push_back([=] {
            std::vector<std::vector<size_t>> seqs{{first}};
            for (size_t qi = 0; qi < seqs.size(); qi++) {
                auto cur = seqs[qi];
                if (cur.size() < maxseq) for (size_t k = 0; k < H.size(); k++) { auto nx = cur; nx.push_back(k); seqs.push_back(nx); }
                if (cur.size() < 2) continue;        // single calls are what (a)-(c) do
                std::string hist = "localeseq "; for (size_t i = 0; i < cur.size(); i++) { if (i) hist += "|"; hist += H[cur[i]]; }
                mark(hist);
                fflush(stdout);
                pid_t pid = fork();
                if (pid == 0) { for (size_t i = 0; i < cur.size(); i++) check(H[cur[i]], hist); _exit(0); }
                int st = 0; waitpid(pid, &st, 0);
                if (!WIFEXITED(st) || WEXITSTATUS(st) != 0) violation("crash", WIFSIGNALED(st) ? fmt("crash: killed by signal %d (see the replay for the sanitizer report)", WTERMSIG(st)) : fmt("crash: exit status %d", WEXITSTATUS(st)), hist);
                shm->states++;
            }
            if (first == 4) sample("localeseq de_DE.UTF-8|C|C");
        });
    }
    parallel(tasks);
    shm->validated = shm->evaluations;
    sx::detail(fmt("(a) all %zu language codes and names x all %zu country codes and names x {no suffix, .UTF-8, ., .1252}; (b) every string of length <= %d over {e,n,G,B,_,.,x}; (c) language and country parts of every length 0..80 in the shapes "
                   "L_C, L_C.s, L.s_C, L_GB, en_C, L, _L, L_, L., .L, with delimiters in both orders; (d) every sequence of 2..%zu calls over 12 representative inputs, each in a fresh process (the answer must not depend on earlier calls); states = inputs that are well-formed per the independent parser", langs.size(), countries.size(), maxlen, (size_t)(thorough() ? 4 : 3)));
}

void replay(const std::string &hist) {
    if (hist.compare(0, 7, "locale ") == 0) check(hist.substr(7));
    else if (hist.compare(0, 10, "localeseq ") == 0) { std::stringstream ss(hist.substr(10)); std::string one; std::vector<std::string> v; while (std::getline(ss, one, '|')) v.push_back(one); if (!hist.empty() && hist.back() == '|') v.push_back(""); for (auto &x : v) check(x, hist); }
    else violation("replay:parse", "cannot parse " + hist);
}
}  // namespace

int main(int argc, char **argv) {
    Harness h;
    h.name = "locale";
    h.rule = "complete enumeration of a structured, bounded input space (no sampling): table cross product, all short strings over a delimiter-rich alphabet, and the length family across the 64-byte scratch buffer; every call runs under "
             "AddressSanitizer and its result is compared with an independent parser of 'language_COUNTRY[.charset]' over the public tables (codes, all names of the language in table order, pointer identity with table entries; "
             "otherwise the en/English/GB/United Kingdom fallback with error set); non-trivial = well-formed input";
    h.assumptions = {"the charset is whatever follows a '.' after the country; a country name that itself contains '.' is accepted when the remainder equals the name or continues with '.'", "the fallback is compared by content, successful results by pointer identity with the tables"};
    h.explore = explore; h.replay = replay;
    return run_main(argc, argv, h);
}
